// C18: mp::Equal is a structural equivalence consistent with std::hash<mp::Expr>.
// rapidcheck generates a tree *specification* (plain data), builds it several times in one mp::ExprFactory
// (independent copies, single-point mutants, unrelated trees) and compares mp::Equal / the hash with the
// verdict computed on the specifications.
//   expr_shim rc            RC_PARAMS from env; prints a JSON summary line
//   expr_shim replay <file> re-run one saved case
// A failing (shrunk) case is written to $EXPR_FAIL.
#include <cmath>
#include <cstdio>
#include <cstdlib>
#include <cstring>
#include <fstream>
#include <functional>
#include <map>
#include <set>
#include <sstream>
#include <string>
#include <vector>

#include "mp/expr.h"
#include "mp/error.h"
#include <rapidcheck.h>

namespace ex = mp::expr;

struct Node {
  int kind = 0;
  double val = 0;                 // NUMBER
  int idx = 0;                    // VARIABLE / COMMON_EXPR index, BOOL value, CALL function number
  std::string str;                // STRING
  std::vector<double> pl;         // PLTERM: slope0 bp0 slope1 bp1 ... slopeN
  std::vector<Node> kids;
};

// ---------------------------------------------------------------- serialisation
static std::string hexs(const std::string& s) { static const char* h = "0123456789abcdef"; std::string r; for (unsigned char c : s) { r += h[c >> 4]; r += h[c & 15]; } return r.empty() ? "-" : r; }
static std::string unhex(const std::string& s) { if (s == "-") return ""; std::string r; for (size_t i = 0; i + 1 < s.size(); i += 2) r += (char)strtol(s.substr(i, 2).c_str(), 0, 16); return r; }
static std::string dstr(double d) { char b[64]; if (std::isnan(d)) return "nan"; if (std::isinf(d)) return d > 0 ? "inf" : "-inf"; snprintf(b, sizeof b, "%a", d); return b; }
static void put(std::ostream& o, const Node& n) {
  o << n.kind << " " << dstr(n.val) << " " << n.idx << " " << hexs(n.str) << " " << n.pl.size();
  for (double d : n.pl) o << " " << dstr(d);
  o << " " << n.kids.size() << "\n";
  for (auto& k : n.kids) put(o, k);
}
static Node get(std::istream& i) {
  Node n; std::string v, s; size_t npl, nk;
  i >> n.kind >> v >> n.idx >> s >> npl; n.val = strtod(v.c_str(), 0); n.str = unhex(s);
  n.pl.resize(npl); for (auto& d : n.pl) { i >> v; d = strtod(v.c_str(), 0); }
  i >> nk; for (size_t k = 0; k < nk && i; ++k) n.kids.push_back(get(i));
  return n;
}
static std::string show(const Node& n, int budget = 60) {
  std::ostringstream o;
  std::function<void(const Node&)> rec = [&](const Node& m) {
    if (--budget < 0) { o << "."; return; }
    if (m.kind == ex::NUMBER) { o << dstr(m.val); return; }
    if (m.kind == ex::VARIABLE) { o << "x" << m.idx; return; }
    if (m.kind == ex::COMMON_EXPR) { o << "e" << m.idx; return; }
    if (m.kind == ex::BOOL) { o << (m.idx ? "true" : "false"); return; }
    if (m.kind == ex::STRING) { o << "'" << hexs(m.str) << "'"; return; }
    o << mp::expr::str((ex::Kind)m.kind);
    if (m.kind == ex::CALL) o << "#" << m.idx;
    if (m.kind == ex::PLTERM) { o << "<"; for (size_t i = 0; i < m.pl.size(); ++i) o << (i ? "," : "") << dstr(m.pl[i]); o << ">"; }
    o << "(";
    for (size_t i = 0; i < m.kids.size(); ++i) { if (i) o << ","; rec(m.kids[i]); }
    o << ")";
  };
  rec(n);
  return o.str();
}

// ---------------------------------------------------------------- the oracle on specifications
static bool same_bits(double a, double b) { return std::memcmp(&a, &b, sizeof a) == 0; }
// strict: identical constants bit for bit (all NaNs generated are the same NaN); loose: +0 and -0 are the same constant
static bool spec_eq(const Node& a, const Node& b, bool loose) {
  auto deq = [&](double x, double y) { return same_bits(x, y) || (std::isnan(x) && std::isnan(y)) || (loose && x == y); };
  if (a.kind != b.kind || a.idx != b.idx || a.str != b.str || a.pl.size() != b.pl.size() || a.kids.size() != b.kids.size()) return false;
  if (!deq(a.val, b.val)) return false;
  for (size_t i = 0; i < a.pl.size(); ++i) if (!deq(a.pl[i], b.pl[i])) return false;
  for (size_t i = 0; i < a.kids.size(); ++i) if (!spec_eq(a.kids[i], b.kids[i], loose)) return false;
  return true;
}
static int count_nodes(const Node& n) { int c = 1; for (auto& k : n.kids) c += count_nodes(k); return c; }
static void kinds_of(const Node& n, std::set<int>& s) { s.insert(n.kind); for (auto& k : n.kids) kinds_of(k, s); }
static bool has_symbolic(const Node& n) { if (n.kind == ex::IFSYM || n.kind == ex::NUMBEROF_SYM) return true; for (auto& k : n.kids) if (has_symbolic(k)) return true; return false; }

// ---------------------------------------------------------------- building in the real factory
struct Builder {
  mp::ExprFactory f;
  std::vector<mp::Function> funcs;
  Builder() {
    funcs.push_back(f.AddFunction("f", 2));
    funcs.push_back(f.AddFunction("g", -1));
    funcs.push_back(f.AddFunction("f", 2));                        // same name, another function object
    funcs.push_back(f.AddFunction("sym", -1, mp::func::SYMBOLIC));
    funcs.push_back(f.AddFunction("", 0));
  }
  mp::NumericExpr num(const Node& n) { return mp::Cast<mp::NumericExpr>(build(n)); }
  mp::LogicalExpr lgc(const Node& n) { return mp::Cast<mp::LogicalExpr>(build(n)); }
  mp::Expr build(const Node& n) {
    ex::Kind k = (ex::Kind)n.kind;
    if (k == ex::NUMBER) return f.MakeNumericConstant(n.val);
    if (k == ex::VARIABLE) return f.MakeVariable(n.idx);
    if (k == ex::COMMON_EXPR) return f.MakeCommonExpr(n.idx);
    if (k >= ex::FIRST_UNARY && k <= ex::LAST_UNARY) return f.MakeUnary(k, num(n.kids[0]));
    if (k >= ex::FIRST_BINARY && k <= ex::LAST_BINARY) return f.MakeBinary(k, num(n.kids[0]), num(n.kids[1]));
    if (k == ex::IF) return f.MakeIf(lgc(n.kids[0]), num(n.kids[1]), num(n.kids[2]));
    if (k == ex::PLTERM) {
      int nb = (int)n.pl.size() / 2;
      auto b = f.BeginPLTerm(nb);
      for (int i = 0; i < nb; ++i) { b.AddSlope(n.pl[2 * i]); b.AddBreakpoint(n.pl[2 * i + 1]); }
      b.AddSlope(n.pl[2 * nb]);
      return f.EndPLTerm(b, mp::Cast<mp::Reference>(build(n.kids[0])));
    }
    if (k == ex::CALL) {
      auto b = f.BeginCall(funcs[n.idx], (int)n.kids.size());
      for (auto& c : n.kids) b.AddArg(build(c));
      return f.EndCall(b);
    }
    if (k == ex::MIN || k == ex::MAX || k == ex::SUM) {
      auto b = f.BeginIterated(k, (int)n.kids.size());
      for (auto& c : n.kids) b.AddArg(num(c));
      return f.EndIterated(b);
    }
    if (k == ex::NUMBEROF) {
      auto b = f.BeginNumberOf((int)n.kids.size(), num(n.kids[0]));
      for (size_t i = 1; i < n.kids.size(); ++i) b.AddArg(num(n.kids[i]));
      return f.EndNumberOf(b);
    }
    if (k == ex::NUMBEROF_SYM) {
      auto b = f.BeginSymbolicNumberOf((int)n.kids.size(), build(n.kids[0]));
      for (size_t i = 1; i < n.kids.size(); ++i) b.AddArg(build(n.kids[i]));
      return f.EndSymbolicNumberOf(b);
    }
    if (k == ex::COUNT) {
      auto b = f.BeginCount((int)n.kids.size());
      for (auto& c : n.kids) b.AddArg(lgc(c));
      return f.EndCount(b);
    }
    if (k == ex::BOOL) return f.MakeLogicalConstant(n.idx != 0);
    if (k == ex::NOT) return f.MakeNot(lgc(n.kids[0]));
    if (k >= ex::FIRST_BINARY_LOGICAL && k <= ex::LAST_BINARY_LOGICAL) return f.MakeBinaryLogical(k, lgc(n.kids[0]), lgc(n.kids[1]));
    if (k >= ex::FIRST_RELATIONAL && k <= ex::LAST_RELATIONAL) return f.MakeRelational(k, num(n.kids[0]), num(n.kids[1]));
    if (k >= ex::FIRST_LOGICAL_COUNT && k <= ex::LAST_LOGICAL_COUNT) return f.MakeLogicalCount(k, num(n.kids[0]), mp::Cast<mp::CountExpr>(build(n.kids[1])));
    if (k == ex::IMPLICATION) return f.MakeImplication(lgc(n.kids[0]), lgc(n.kids[1]), lgc(n.kids[2]));
    if (k == ex::EXISTS || k == ex::FORALL) {
      auto b = f.BeginIteratedLogical(k, (int)n.kids.size());
      for (auto& c : n.kids) b.AddArg(lgc(c));
      return f.EndIteratedLogical(b);
    }
    if (k == ex::ALLDIFF || k == ex::NOT_ALLDIFF) {
      auto b = f.BeginPairwise(k, (int)n.kids.size());
      for (auto& c : n.kids) b.AddArg(num(c));
      return f.EndPairwise(b);
    }
    if (k == ex::STRING) return f.MakeStringLiteral(n.str);
    if (k == ex::IFSYM) return f.MakeSymbolicIf(lgc(n.kids[0]), build(n.kids[1]), build(n.kids[2]));
    fprintf(stderr, "harness: unknown kind %d\n", n.kind);
    abort();
  }
};

// ---------------------------------------------------------------- generators
// rc::gen::inRange collapses towards the lower bound at small sizes; pin the size so every case draws from the full range
static int R(int lo, int hi) { return *rc::gen::resize(100, rc::gen::inRange(lo, hi)); }
static size_t RZ(size_t lo, size_t hi) { return *rc::gen::resize(100, rc::gen::inRange<size_t>(lo, hi)); }
static const std::vector<double> kConsts = {0.0, -0.0, 1.0, -1.0, 42.0, 0.42, 0.1, 0.30000000000000004, 0.1 + 0.2 - 0.30000000000000004, 1e308, -1e308, 5e-324, -5e-324,
                                            INFINITY, -INFINITY, 2.0, 3.0, 1.0000000000000002, 4294967296.0, 4294967297.0, -4294967296.0, 9007199254740992.0};
static double gen_const(bool with_nan) {
  int c = R(0, with_nan ? 12 : 11);
  if (c == 11) { int w = R(0, 3); return w == 0 ? std::nan("") : w == 1 ? -std::nan("") : std::nan("0x123"); }
  if (c < 5) return *rc::gen::elementOf(kConsts);
  if (c < 9) return (double)R(-3, 6);
  double d = *rc::gen::arbitrary<double>();
  return std::isnan(d) ? 7.5 : d;
}
static std::string gen_str() {
  int c = R(0, 4);
  if (c == 0) return *rc::gen::elementOf(std::vector<std::string>{"", "a", "ab", "abc", "ABC", "abd", " ", "a b", "\xff\xfe", "abc ", std::string(300, 'z'), std::string(300, 'z') + "y"});
  std::string s = *rc::gen::container<std::string>(rc::gen::inRange<char>(1, 127));
  for (auto& ch : s) if (!ch) ch = 'q';
  return s;
}
struct Cfg { bool nan, symbolic; };
static Node gen_logical(int depth, const Cfg& cfg);
static Node gen_ref() { Node n; n.kind = *rc::gen::arbitrary<bool>() ? ex::VARIABLE : ex::COMMON_EXPR; n.idx = R(0, 4); return n; }
static Node gen_numeric(int depth, const Cfg& cfg) {
  Node n;
  int c = depth <= 0 ? R(0, 3) : R(0, 14);
  switch (c) {
  case 0: n.kind = ex::NUMBER; n.val = gen_const(cfg.nan); break;
  case 1: n.kind = ex::VARIABLE; n.idx = *rc::gen::elementOf(std::vector<int>{0, 1, 2, 3, 1000000, 2147483647}); break;
  case 2: n.kind = ex::COMMON_EXPR; n.idx = R(0, 4); break;
  case 3: n.kind = R(ex::FIRST_UNARY, ex::LAST_UNARY + 1); n.kids.push_back(gen_numeric(depth - 1, cfg)); break;
  case 4: case 5: n.kind = R(ex::FIRST_BINARY, ex::LAST_BINARY + 1); n.kids.push_back(gen_numeric(depth - 1, cfg)); n.kids.push_back(gen_numeric(depth - 1, cfg)); break;
  case 6: n.kind = ex::IF; n.kids.push_back(gen_logical(depth - 1, cfg)); n.kids.push_back(gen_numeric(depth - 1, cfg)); n.kids.push_back(gen_numeric(depth - 1, cfg)); break;
  case 7: {
    n.kind = ex::PLTERM; int nb = R(1, 6);
    for (int i = 0; i < nb; ++i) { n.pl.push_back(gen_const(cfg.nan)); n.pl.push_back(gen_const(cfg.nan)); }
    n.pl.push_back(gen_const(cfg.nan));
    n.kids.push_back(gen_ref()); break; }
  case 8: case 9: {
    n.kind = ex::CALL; n.idx = R(0, 5);
    int na = n.idx == 0 || n.idx == 2 ? 2 : n.idx == 4 ? 0 : R(0, 5);
    for (int i = 0; i < na; ++i) {
      if (R(0, 3) == 0) { Node s; s.kind = ex::STRING; s.str = gen_str(); n.kids.push_back(s); }
      else n.kids.push_back(gen_numeric(depth - 1, cfg));
    }
    break; }
  case 10: case 11: {
    n.kind = *rc::gen::elementOf(std::vector<int>{ex::MIN, ex::MAX, ex::SUM, ex::SUM});
    int na = R(0, 5);
    for (int i = 0; i < na; ++i) n.kids.push_back(gen_numeric(depth - 1, cfg));
    break; }
  case 12: {
    bool sym = cfg.symbolic && R(0, 3) == 0;
    n.kind = sym ? ex::NUMBEROF_SYM : ex::NUMBEROF; int na = R(1, 5);
    for (int i = 0; i < na; ++i) {
      if (sym && *rc::gen::arbitrary<bool>()) { Node s; s.kind = ex::STRING; s.str = gen_str(); n.kids.push_back(s); }
      else n.kids.push_back(gen_numeric(depth - 1, cfg));
    }
    break; }
  default: {
    n.kind = ex::COUNT; int na = R(0, 4);
    for (int i = 0; i < na; ++i) n.kids.push_back(gen_logical(depth - 1, cfg));
    break; }
  }
  return n;
}
static Node gen_logical(int depth, const Cfg& cfg) {
  Node n;
  int c = depth <= 0 ? 0 : R(0, 9);
  switch (c) {
  case 0: n.kind = ex::BOOL; n.idx = R(0, 2); break;
  case 1: n.kind = ex::NOT; n.kids.push_back(gen_logical(depth - 1, cfg)); break;
  case 2: n.kind = R(ex::FIRST_BINARY_LOGICAL, ex::LAST_BINARY_LOGICAL + 1); n.kids.push_back(gen_logical(depth - 1, cfg)); n.kids.push_back(gen_logical(depth - 1, cfg)); break;
  case 3: case 4: n.kind = R(ex::FIRST_RELATIONAL, ex::LAST_RELATIONAL + 1); n.kids.push_back(gen_numeric(depth - 1, cfg)); n.kids.push_back(gen_numeric(depth - 1, cfg)); break;
  case 5: {
    n.kind = R(ex::FIRST_LOGICAL_COUNT, ex::LAST_LOGICAL_COUNT + 1); n.kids.push_back(gen_numeric(depth - 1, cfg));
    Node cnt; cnt.kind = ex::COUNT; int na = R(0, 4);
    for (int i = 0; i < na; ++i) cnt.kids.push_back(gen_logical(depth - 2, cfg));
    n.kids.push_back(cnt); break; }
  case 6: n.kind = ex::IMPLICATION; for (int i = 0; i < 3; ++i) n.kids.push_back(gen_logical(depth - 1, cfg)); break;
  case 7: {
    n.kind = *rc::gen::arbitrary<bool>() ? ex::EXISTS : ex::FORALL; int na = R(0, 5);
    for (int i = 0; i < na; ++i) n.kids.push_back(gen_logical(depth - 1, cfg));
    break; }
  default: {
    n.kind = *rc::gen::arbitrary<bool>() ? ex::ALLDIFF : ex::NOT_ALLDIFF; int na = R(0, 5);
    for (int i = 0; i < na; ++i) n.kids.push_back(gen_numeric(depth - 1, cfg));
    break; }
  }
  return n;
}
static Node gen_root(const Cfg& cfg) {
  int depth = R(0, 5);
  int c = R(0, cfg.symbolic ? 4 : 3);
  if (c == 3) {
    Node n; n.kind = ex::IFSYM; n.kids.push_back(gen_logical(depth - 1, cfg));
    for (int i = 0; i < 2; ++i) { if (*rc::gen::arbitrary<bool>()) { Node s; s.kind = ex::STRING; s.str = gen_str(); n.kids.push_back(s); } else n.kids.push_back(gen_numeric(depth - 1, cfg)); }
    return n;
  }
  return c == 0 ? gen_logical(depth, cfg) : gen_numeric(depth, cfg);
}

// Collect pointers to all nodes
static void collect(Node& n, std::vector<Node*>& out) { out.push_back(&n); for (auto& k : n.kids) collect(k, out); }
static bool is_numeric_kind(int k) { return k >= ex::FIRST_NUMERIC && k <= ex::LAST_NUMERIC && k != ex::NUMBEROF_SYM && k != ex::IFSYM; }
static bool is_logical_kind(int k) { return k >= ex::FIRST_LOGICAL && k <= ex::LAST_LOGICAL; }

static double tweak(double d) {
  int c = R(0, 5);
  if (std::isnan(d)) return 1.0;
  switch (c) {
  case 0: return std::nextafter(d, INFINITY) == d ? 1.0 : std::nextafter(d, INFINITY);
  case 1: return d == 0 ? (std::signbit(d) ? 0.0 : -0.0) : -d;
  case 2: return std::isinf(d) ? 1e308 : d + 1;
  case 3: return gen_const(false);
  default: return d == 0 ? 5e-324 : std::nextafter(d, -INFINITY);
  }
}

// applies one single-point change; returns its name ("" if none applicable at the chosen node)
static std::string mutate(Node& root, const Cfg& cfg) {
  std::vector<Node*> all; collect(root, all);
  Node& n = *all[RZ(0, all.size())];
  int k = n.kind;
  std::vector<std::string> opts;
  if (k == ex::NUMBER) opts = {"const"};
  else if (k == ex::VARIABLE || k == ex::COMMON_EXPR) opts = {"index", "refkind"};
  else if (k == ex::BOOL) opts = {"bool"};
  else if (k == ex::STRING) opts = {"string"};
  else if (k == ex::PLTERM) opts = {"pl-value", "pl-arity", "pl-swap"};
  else if (k == ex::CALL) opts = {"func", "arity", "order", "arg-type"};
  else if ((k >= ex::FIRST_UNARY && k <= ex::LAST_UNARY) || k == ex::NOT) opts = {"operator"};
  else if (n.kids.size() >= 1 && (k == ex::MIN || k == ex::MAX || k == ex::SUM || k == ex::NUMBEROF || k == ex::COUNT || k == ex::EXISTS || k == ex::FORALL || k == ex::ALLDIFF || k == ex::NOT_ALLDIFF))
    opts = {"operator", "arity", "order"};
  else if (k == ex::MIN || k == ex::MAX || k == ex::SUM || k == ex::COUNT || k == ex::EXISTS || k == ex::FORALL || k == ex::ALLDIFF || k == ex::NOT_ALLDIFF) opts = {"operator", "arity"};
  else if (k == ex::IF || k == ex::IMPLICATION) opts = {"order"};
  else if (k == ex::NUMBEROF_SYM || k == ex::IFSYM) opts = {"order"};
  else opts = {"operator", "order"};   // binary, binary logical, relational, logical count
  std::string m = *rc::gen::elementOf(opts);
  auto other = [&](int lo, int hi) { int r = R(lo, hi); return r >= k ? r + 1 : r; };   // uniformly another kind in [lo, hi]
  if (m == "const") n.val = tweak(n.val);
  else if (m == "index") n.idx = n.idx == 0 ? 1 : *rc::gen::elementOf(std::vector<int>{n.idx - 1, 0, n.idx ^ 0x10000});
  else if (m == "refkind") n.kind = k == ex::VARIABLE ? ex::COMMON_EXPR : ex::VARIABLE;
  else if (m == "bool") n.idx = !n.idx;
  else if (m == "string") {
    int c = R(0, 4);
    if (n.str.empty() || c == 0) n.str += "x";
    else if (c == 1) n.str.pop_back();
    else if (c == 2) n.str[RZ(0, n.str.size())] ^= 0x20;
    else n.str[n.str.size() - 1] = n.str.back() == 'y' ? 'z' : 'y';
    for (auto& ch : n.str) if (!ch) ch = 'q';
  }
  else if (m == "pl-value") { size_t i = RZ(0, n.pl.size()); n.pl[i] = tweak(n.pl[i]); }
  else if (m == "pl-arity") { if (n.pl.size() > 3 && *rc::gen::arbitrary<bool>()) { n.pl.pop_back(); n.pl.pop_back(); } else { n.pl.push_back(n.pl.back()); n.pl.push_back(n.pl.back()); } }
  else if (m == "pl-swap") { size_t i = RZ(0, n.pl.size() - 1); std::swap(n.pl[i], n.pl[i + 1]); }
  else if (m == "func") { n.idx = n.idx == 0 ? 2 : n.idx == 2 ? 0 : n.idx == 1 ? 3 : n.idx == 3 ? 1 : 1; }
  else if (m == "arg-type") {
    if (n.kids.empty()) return "";
    Node& a = n.kids[RZ(0, n.kids.size())];
    if (a.kind == ex::STRING) { Node r; r.kind = ex::NUMBER; r.val = 0; a = r; } else { Node r; r.kind = ex::STRING; r.str = ""; a = r; }
  }
  else if (m == "arity") {
    if (k == ex::CALL && (n.idx == 0 || n.idx == 2 || n.idx == 4)) n.idx = 1;    // fixed-arity functions: move to the vararg one, then change
    bool grow = n.kids.size() <= (k == ex::NUMBEROF ? 1u : 0u) || *rc::gen::arbitrary<bool>();
    if (grow) {
      if (!n.kids.empty() && *rc::gen::arbitrary<bool>()) n.kids.push_back(n.kids.back());      // duplicate of the last argument
      else if (k == ex::COUNT || k == ex::EXISTS || k == ex::FORALL) n.kids.push_back(gen_logical(0, cfg));
      else n.kids.push_back(gen_numeric(0, cfg));
    } else n.kids.pop_back();
  }
  else if (m == "order") {
    size_t lo = (k == ex::IF || k == ex::IFSYM) ? 1 : 0;          // condition is logical, branches numeric
    if (k >= ex::FIRST_LOGICAL_COUNT && k <= ex::LAST_LOGICAL_COUNT) return "";   // lhs numeric, rhs count: not swappable
    if (n.kids.size() < lo + 2) return "";
    size_t i = RZ(lo, n.kids.size() - 1);
    size_t j = RZ(i + 1, n.kids.size());
    if (k == ex::CALL || k == ex::NUMBEROF_SYM || k == ex::IFSYM || true) std::swap(n.kids[i], n.kids[j]);
  }
  else if (m == "operator") {
    if (k >= ex::FIRST_UNARY && k <= ex::LAST_UNARY) n.kind = other(ex::FIRST_UNARY, ex::LAST_UNARY);
    else if (k == ex::NOT) { Node c = n.kids[0]; n = c; return "drop-not"; }
    else if (k >= ex::FIRST_BINARY && k <= ex::LAST_BINARY) n.kind = other(ex::FIRST_BINARY, ex::LAST_BINARY);
    else if (k >= ex::FIRST_BINARY_LOGICAL && k <= ex::LAST_BINARY_LOGICAL) n.kind = other(ex::FIRST_BINARY_LOGICAL, ex::LAST_BINARY_LOGICAL);
    else if (k >= ex::FIRST_RELATIONAL && k <= ex::LAST_RELATIONAL) n.kind = other(ex::FIRST_RELATIONAL, ex::LAST_RELATIONAL);
    else if (k >= ex::FIRST_LOGICAL_COUNT && k <= ex::LAST_LOGICAL_COUNT) n.kind = other(ex::FIRST_LOGICAL_COUNT, ex::LAST_LOGICAL_COUNT);
    else if (k == ex::MIN) n.kind = *rc::gen::arbitrary<bool>() ? ex::MAX : ex::SUM;
    else if (k == ex::MAX) n.kind = *rc::gen::arbitrary<bool>() ? ex::MIN : ex::SUM;
    else if (k == ex::SUM) n.kind = n.kids.empty() ? ex::MIN : *rc::gen::elementOf(std::vector<int>{ex::MIN, ex::MAX, ex::NUMBEROF});
    else if (k == ex::NUMBEROF) n.kind = ex::SUM;
    else if (k == ex::COUNT) { if (&n == &root) n.kind = ex::EXISTS; else return ""; }      // count is numeric, exists logical: only at the root
    else if (k == ex::EXISTS) n.kind = ex::FORALL;
    else if (k == ex::FORALL) n.kind = ex::EXISTS;
    else if (k == ex::ALLDIFF) n.kind = ex::NOT_ALLDIFF;
    else if (k == ex::NOT_ALLDIFF) n.kind = ex::ALLDIFF;
    else return "";
  }
  return m;
}

// ---------------------------------------------------------------- one case
struct Case { Node a; std::vector<Node> others; std::vector<std::string> how; };
static void save(const Case& c, const std::string& path) {
  std::ofstream f(path);
  f << c.others.size() << "\n";
  put(f, c.a);
  for (auto& o : c.others) put(f, o);
}
static Case load(const std::string& path) {
  std::ifstream f(path); Case c; size_t n; f >> n; c.a = get(f);
  for (size_t i = 0; i < n; ++i) { c.others.push_back(get(f)); c.how.push_back("?"); }
  return c;
}

struct Verdict { std::string fail; unsigned long pairs = 0, eq_true = 0, eq_false = 0, ambiguous = 0, unsupported = 0; };

static bool equal_checked(mp::Expr a, mp::Expr b, bool sym, Verdict& v, bool& threw) {
  threw = false;
  try { return mp::Equal(a, b); }
  catch (const mp::UnsupportedError& e) {
    threw = true; ++v.unsupported;
    if (!sym && v.fail.empty()) v.fail = std::string("Equal throws UnsupportedError on a non-symbolic expression: ") + e.what();
    return false;
  }
}
static size_t hash_checked(mp::Expr a, bool sym, Verdict& v, bool& threw) {
  threw = false;
  try { return std::hash<mp::Expr>()(a); }
  catch (const mp::UnsupportedError& e) {
    threw = true; ++v.unsupported;
    if (!sym && v.fail.empty()) v.fail = std::string("hash throws UnsupportedError on a non-symbolic expression: ") + e.what();
    return 0;
  }
}

static Verdict judge(const Case& c) {
  Verdict v;
  Builder b;
  std::vector<const Node*> specs; specs.push_back(&c.a); specs.push_back(&c.a);       // two independent builds of A
  for (auto& o : c.others) specs.push_back(&o);
  std::vector<mp::Expr> e; std::vector<bool> sym;
  for (auto s : specs) { e.push_back(b.build(*s)); sym.push_back(has_symbolic(*s)); }
  size_t n = e.size();
  std::vector<size_t> hs(n); std::vector<bool> hthrew(n);
  for (size_t i = 0; i < n; ++i) { bool t; hs[i] = hash_checked(e[i], sym[i], v, t); hthrew[i] = t; }
  std::vector<std::vector<int>> eq(n, std::vector<int>(n, -1));
  for (size_t i = 0; i < n && v.fail.empty(); ++i)
    for (size_t j = 0; j < n && v.fail.empty(); ++j) {
      bool s = sym[i] || sym[j], threw;
      bool r = equal_checked(e[i], e[j], s, v, threw);
      if (threw) continue;
      eq[i][j] = r; ++v.pairs;
      bool strict = spec_eq(*specs[i], *specs[j], false), loose = spec_eq(*specs[i], *specs[j], true);
      std::ostringstream w;
      if (i == j && !r) w << "not reflexive: Equal(e, e) is false for e = " << show(*specs[i]);
      else if (strict != loose) ++v.ambiguous;                  // differ only in the sign of a zero constant: either verdict accepted
      else if (r != strict) w << "Equal says " << (r ? "true" : "false") << " but the trees are " << (strict ? "identical" : "different") << ": " << show(*specs[i]) << "  vs  " << show(*specs[j]);
      if (r) ++v.eq_true; else ++v.eq_false;
      if (r && !hthrew[i] && !hthrew[j] && hs[i] != hs[j] && w.str().empty()) w << "Equal is true but the hashes differ: " << show(*specs[i]) << "  vs  " << show(*specs[j]);
      if (!w.str().empty()) v.fail = w.str();
    }
  for (size_t i = 0; i < n && v.fail.empty(); ++i)
    for (size_t j = 0; j < n && v.fail.empty(); ++j) {
      if (eq[i][j] >= 0 && eq[j][i] >= 0 && eq[i][j] != eq[j][i]) v.fail = "not symmetric: " + show(*specs[i]) + "  vs  " + show(*specs[j]);
      for (size_t k = 0; k < n && v.fail.empty(); ++k)
        if (eq[i][j] == 1 && eq[j][k] == 1 && eq[i][k] == 0) v.fail = "not transitive: " + show(*specs[i]) + " ; " + show(*specs[j]) + " ; " + show(*specs[k]);
    }
  return v;
}

int main(int argc, char** argv) {
  std::string mode = argc > 1 ? argv[1] : "rc";
  if (mode == "replay" && argc > 2) {
    Case c = load(argv[2]);
    Verdict v = judge(c);
    if (!v.fail.empty()) { printf("FAIL %s\n", v.fail.c_str()); return 1; }
    printf("OK pairs=%lu\n", v.pairs); return 0;
  }
  if (mode == "deep") {       // one deterministic probe: a long unary/binary chain, compared and hashed
    int depth = argc > 2 ? atoi(argv[2]) : 300;
    Case c; Node* cur = &c.a;
    for (int i = 0; i < depth; ++i) { cur->kind = i % 2 ? ex::MINUS : ex::ADD; cur->kids.resize(i % 2 ? 1 : 2); if (!(i % 2)) { cur->kids[1].kind = ex::NUMBER; cur->kids[1].val = i; } cur = &cur->kids[0]; }
    cur->kind = ex::VARIABLE;
    Verdict v = judge(c);
    if (!v.fail.empty()) { printf("FAIL %s\n", v.fail.substr(0, 300).c_str()); return 1; }
    printf("OK pairs=%lu\n", v.pairs); return 0;
  }
  Cfg cfg; cfg.nan = getenv("EXPR_SKIP_NAN") == nullptr; cfg.symbolic = mode == "rc-symbolic";
  bool skip_notalldiff = getenv("EXPR_SKIP_NOTALLDIFF") != nullptr;
  unsigned long cases = 0, nontrivial = 0, skipped_known = 0;
  Verdict tot; std::map<std::string, unsigned long> muts; std::set<int> kinds; std::set<size_t> distinct;
  std::vector<std::string> samples; std::string last_fail;
  const char* failp = getenv("EXPR_FAIL");
  bool ok = rc::check("Equal/hash vs specification", [&]() {
    Case c; c.a = gen_root(cfg);
    int nothers = R(1, 4);
    bool mutated = false;
    for (int i = 0; i < nothers; ++i) {
      int w = R(0, 10);
      if (w < 6) {                        // single-point mutant of A (or of the previous mutant: chains for transitivity)
        Node m = (w < 5 || c.others.empty()) ? c.a : c.others.back();
        std::string how = mutate(m, cfg);
        c.others.push_back(m); c.how.push_back(how.empty() ? "copy" : how); mutated |= !how.empty();
      } else if (w < 8) { c.others.push_back(c.a); c.how.push_back("copy"); }
      else { c.others.push_back(gen_root(cfg)); c.how.push_back("independent"); }
    }
    if (skip_notalldiff) {
      std::set<int> ks; kinds_of(c.a, ks); for (auto& o : c.others) kinds_of(o, ks);
      if (ks.count(ex::NOT_ALLDIFF)) { ++skipped_known; return; }
    }
    ++cases;
    Verdict v = judge(c);
    tot.pairs += v.pairs; tot.eq_true += v.eq_true; tot.eq_false += v.eq_false; tot.ambiguous += v.ambiguous; tot.unsupported += v.unsupported;
    for (auto& h : c.how) ++muts[h];
    kinds_of(c.a, kinds);
    int sz = count_nodes(c.a);
    if (sz >= 4 && mutated) { ++nontrivial; std::ostringstream k; put(k, c.a); for (auto& o : c.others) put(k, o); distinct.insert(std::hash<std::string>()(k.str())); }
    if (samples.size() < 3 && sz >= 6 && mutated) samples.push_back((show(c.a, 25) + "  ~" + c.how[0] + "~  " + show(c.others[0], 25)).substr(0, 400));
    if (!v.fail.empty()) { last_fail = v.fail; if (failp) save(c, failp); }
    RC_ASSERT(v.fail.empty());
  });
  printf("{\"ok\":%s,\"cases\":%lu,\"nontrivial\":%lu,\"distinct_nontrivial\":%zu,\"pairs\":%lu,\"equal_true\":%lu,\"equal_false\":%lu,\"zero_sign_only\":%lu,\"unsupported_thrown\":%lu,\"kinds_at_root_tree\":%zu,\"skipped_known\":%lu,\"mutations\":{",
         ok ? "true" : "false", cases, nontrivial, distinct.size(), tot.pairs, tot.eq_true, tot.eq_false, tot.ambiguous, tot.unsupported, kinds.size(), skipped_known);
  bool first = true;
  for (auto& kv : muts) { printf("%s\"%s\":%lu", first ? "" : ",", kv.first.c_str(), kv.second); first = false; }
  printf("},\"fail\":\"");
  for (char ch : last_fail) { if (ch == '"' || ch == '\\') printf("\\%c", ch); else if ((unsigned char)ch < 32 || (unsigned char)ch > 126) printf("?"); else putchar(ch); }
  printf("\",\"samples\":[");
  for (size_t i = 0; i < samples.size(); ++i) { printf("%s\"", i ? "," : ""); for (char ch : samples[i]) { if (ch == '"' || ch == '\\') printf("\\%c", ch); else if ((unsigned char)ch < 32 || (unsigned char)ch > 126) printf("?"); else putchar(ch); } printf("\""); }
  printf("]}\n");
  return 0;
}
