// C13: piecewise-linear approximations produced by mp::PLApproximate stay within the requested tolerance.
// rapidcheck generates (function, parameter, argument interval, result interval, tolerance, integrality); the shim
// calls the real approximator and judges the returned PL function against the true function (long double) at every
// segment: dense sampling plus a local search for the per-segment maximum of the error measure.
//   pl_shim rc             RC_PARAMS from env; prints a JSON summary line
//   pl_shim replay <file>  re-run one saved case ("func param lbx ubx lby uby isint tol")
//   pl_shim show <file>    print the approximation of one case
// A failing (shrunk) case is written to $PL_FAIL; the case being run is in $PL_CURRENT (for time-outs).
#include <cmath>
#include <csignal>
#include <cstdio>
#include <cstdlib>
#include <cstring>
#include <fstream>
#include <map>
#include <set>
#include <sstream>
#include <string>
#include <vector>
#include <unistd.h>

#include "mp/flat/constr_std.h"
#include "mp/flat/redef/MIP/core/lin_approx_core.h"
#include <rapidcheck.h>

typedef long double LD;
static const LD PI = 3.14159265358979323846264338327950288L;

enum Fn { EXP, LOG, EXPA, LOGA, POW, SIN, COS, TAN, ASIN, ACOS, ATAN, SINH, COSH, TANH, ASINH, ACOSH, ATANH, NFN };
static const char* kNames[] = {"exp", "log", "expA", "logA", "pow", "sin", "cos", "tan", "asin", "acos", "atan", "sinh", "cosh", "tanh", "asinh", "acosh", "atanh"};

struct Case { int fn = 0; double prm = 0, lbx = 0, ubx = 1, lby = -1e6, uby = 1e6; int isint = 0; double tol = 1e-2; };

static std::string dstr(double d) { char b[64]; if (std::isnan(d)) return "nan"; if (std::isinf(d)) return d > 0 ? "inf" : "-inf"; snprintf(b, sizeof b, "%a", d); return b; }
static std::string line_of(const Case& c) {
  std::ostringstream o; o << c.fn << " " << dstr(c.prm) << " " << dstr(c.lbx) << " " << dstr(c.ubx) << " " << dstr(c.lby) << " " << dstr(c.uby) << " " << c.isint << " " << dstr(c.tol);
  return o.str();
}
static std::string human(const Case& c) {
  char b[300]; snprintf(b, sizeof b, "%s(prm=%.17g) x in [%.17g, %.17g] y in [%.6g, %.6g] int=%d tol=%g", kNames[c.fn], c.prm, c.lbx, c.ubx, c.lby, c.uby, c.isint, c.tol);
  return b;
}
static Case parse(const std::string& s) {
  std::istringstream i(s); Case c; std::string a[8];
  for (auto& t : a) i >> t;
  c.fn = atoi(a[0].c_str()); c.prm = strtod(a[1].c_str(), 0); c.lbx = strtod(a[2].c_str(), 0); c.ubx = strtod(a[3].c_str(), 0);
  c.lby = strtod(a[4].c_str(), 0); c.uby = strtod(a[5].c_str(), 0); c.isint = atoi(a[6].c_str()); c.tol = strtod(a[7].c_str(), 0);
  return c;
}

// ---------------------------------------------------------------- the true functions
static LD truth(const Case& c, LD x) {
  switch (c.fn) {
  case EXP: return expl(x);
  case LOG: return logl(x);
  case EXPA: return powl((LD)c.prm, x);
  case LOGA: return logl(x) / logl((LD)c.prm);
  case POW: return powl(x, (LD)c.prm);
  case SIN: return sinl(x);
  case COS: return cosl(x);
  case TAN: return tanl(x);
  case ASIN: return asinl(x);
  case ACOS: return acosl(x);
  case ATAN: return atanl(x);
  case SINH: return sinhl(x);
  case COSH: return coshl(x);
  case TANH: return tanhl(x);
  case ASINH: return asinhl(x);
  case ACOSH: return acoshl(x);
  default: return atanhl(x);
  }
}

// ---------------------------------------------------------------- calling the real code
struct Out {
  bool threw = false; std::string what;
  mp::PLApproxParams p;
};
template <class Con> static void call(const Con& con, mp::PLApproxParams& p) { mp::PLApproximate(con, p); }
static Out approximate(const Case& c) {
  Out o; auto& p = o.p;
  p.grDom.lbx = c.lbx; p.grDom.ubx = c.ubx; p.grDom.lby = c.lby; p.grDom.uby = c.uby;
  p.is_x_int = c.isint != 0; p.ubErr = c.tol;
  p.periodLength = 0;
  try {
    switch (c.fn) {
    case EXP: call(mp::ExpConstraint({0}), p); break;
    case LOG: call(mp::LogConstraint({0}), p); break;
    case EXPA: call(mp::ExpAConstraint({0}, mp::DblParamArray1{c.prm}), p); break;
    case LOGA: call(mp::LogAConstraint({0}, mp::DblParamArray1{c.prm}), p); break;
    case POW: call(mp::PowConstraint({0}, mp::DblParamArray1{c.prm}), p); break;
    case SIN: call(mp::SinConstraint({0}), p); break;
    case COS: call(mp::CosConstraint({0}), p); break;
    case TAN: call(mp::TanConstraint({0}), p); break;
    case ASIN: call(mp::AsinConstraint({0}), p); break;
    case ACOS: call(mp::AcosConstraint({0}), p); break;
    case ATAN: call(mp::AtanConstraint({0}), p); break;
    case SINH: call(mp::SinhConstraint({0}), p); break;
    case COSH: call(mp::CoshConstraint({0}), p); break;
    case TANH: call(mp::TanhConstraint({0}), p); break;
    case ASINH: call(mp::AsinhConstraint({0}), p); break;
    case ACOSH: call(mp::AcoshConstraint({0}), p); break;
    default: call(mp::AtanhConstraint({0}), p); break;
    }
  } catch (const std::exception& e) { o.threw = true; o.what = e.what(); }
  return o;
}

// value of the PL function as the PLConstraint semantics define it (end slopes extend beyond the outer points)
static LD pl_value(const mp::PLPoints& pl, LD x) {
  size_t n = pl.x_.size();
  if (n == 1) return pl.y_[0];
  size_t i;
  if (x <= pl.x_.front()) i = 1;
  else if (x >= pl.x_.back()) i = n - 1;
  else { size_t lo = 0, hi = n - 1; while (hi - lo > 1) { size_t m = (lo + hi) / 2; if ((LD)pl.x_[m] <= x) lo = m; else hi = m; } i = hi; }
  LD x0 = pl.x_[i - 1], x1 = pl.x_[i], y0 = pl.y_[i - 1], y1 = pl.y_[i];
  return y0 + (y1 - y0) * (x - x0) / (x1 - x0);
}

struct Verdict {
  std::string fail;          // empty = holds
  std::string cls;           // outcome class
  double worst = 0;          // worst error / tolerance seen
  size_t npoints = 0;
  bool nontrivial = false;
};

static LD g_seg_a, g_seg_b;       // current segment, for snapping to integers
static LD err_at(const Case& c, const mp::PLPoints& pl, LD x) {
  if (c.isint) {                  // an integer argument only takes integer values: judge there
    LD r = roundl(x);
    if (r < g_seg_a) r = ceill(g_seg_a);
    if (r > g_seg_b) r = floorl(g_seg_b);
    if (r < g_seg_a) return 0;    // no integer in this segment
    x = r;
  }
  LD f = truth(c, x), y = pl_value(pl, x);
  LD e = fabsl(f - y);
  return fabsl(f) > 1 ? e / fabsl(f) : e;
}

// maximum of the error measure on [a, b]: K samples, then ternary refinement around the best one
static LD seg_max(const Case& c, const mp::PLPoints& pl, LD a, LD b, LD& argmax) {
  const int K = 12;
  g_seg_a = a; g_seg_b = b;
  LD best = -1; int bi = 0;
  for (int i = 0; i <= K; ++i) { LD x = a + (b - a) * i / K; LD e = err_at(c, pl, x); if (e > best) { best = e; bi = i; argmax = x; } }
  LD lo = a + (b - a) * (bi > 0 ? bi - 1 : 0) / K, hi = a + (b - a) * (bi < K ? bi + 1 : K) / K;
  for (int it = 0; it < 40 && hi - lo > 0; ++it) {
    LD m1 = lo + (hi - lo) / 3, m2 = hi - (hi - lo) / 3;
    LD e1 = err_at(c, pl, m1), e2 = err_at(c, pl, m2);
    if (e1 > best) { best = e1; argmax = m1; }
    if (e2 > best) { best = e2; argmax = m2; }
    if (e1 < e2) lo = m1; else hi = m2;
  }
  return best;
}

static const double SLACK = 1.02;     // error measure may exceed the tolerance by 2% (rounding in the code's own control) before it is a violation

static Verdict judge(const Case& c, const Out& o) {
  Verdict v; std::ostringstream w;
  if (o.threw) {
    bool pow_neg = c.fn == POW && c.lbx < 0 && (c.prm < 0 || std::floor(c.prm) != c.prm);
    if (o.what.find("empty argument domain") != std::string::npos) { v.cls = "reported-infeasible"; return v; }
    if (pow_neg && o.what.find("outside of the accepted") != std::string::npos) { v.cls = "refused-negative-base"; return v; }
    v.cls = "exception"; v.fail = "unexpected exception: " + o.what.substr(0, 200); return v;
  }
  const auto& p = o.p; const auto& pl = p.plPoints;
  size_t n = pl.x_.size(); v.npoints = n;
  if (n == 0 && c.isint && !p.fUsePeriod && std::ceil(p.grDomOut.lbx) > std::floor(p.grDomOut.ubx)) { v.cls = "no-integer-in-domain"; return v; }   // infeasible argument: nothing to approximate
  if (n == 0 || pl.y_.size() != n) { v.cls = "empty"; v.fail = "no PL points returned (x: " + std::to_string(n) + ", y: " + std::to_string(pl.y_.size()) + ")"; return v; }
  for (size_t i = 0; i < n; ++i) if (!std::isfinite(pl.x_[i]) || !std::isfinite(pl.y_[i])) { w << "non-finite PL point " << i << ": (" << pl.x_[i] << ", " << pl.y_[i] << ")"; v.cls = "nonfinite"; v.fail = w.str(); return v; }
  for (size_t i = 1; i < n; ++i) if (!(pl.x_[i] > pl.x_[i - 1])) { w << "breakpoints not strictly increasing at " << i << ": " << dstr(pl.x_[i - 1]) << " then " << dstr(pl.x_[i]); v.cls = "order"; v.fail = w.str(); return v; }
  double dl, du;      // the domain reported as covered (for the PL argument)
  if (p.fUsePeriod) {
    dl = p.periodRemainderRange.lb; du = p.periodRemainderRange.ub;
    // the (factor, remainder) ranges must reach every x of the argument interval
    double P = p.periodLength;
    if (!(P > 0)) { v.cls = "period"; v.fail = "periodic approximation without a positive period length"; return v; }
    LD Ptrue = c.fn == TAN ? PI : 2 * PI;
    if (fabsl(P - Ptrue) > 1e-12) { w << "period length " << dstr(P) << " is not the function's period"; v.cls = "period"; v.fail = w.str(); return v; }
    double lo = p.periodicFactorRange.lb * P + dl, hi = p.periodicFactorRange.ub * P + du;
    double slack = c.fn == TAN ? 2e-3 : 1e-9;          // tan: a strip around each pole is cut out on purpose
    if (lo > p.grDomOut.lbx + slack + 1e-12 * std::fabs(lo) || hi < p.grDomOut.ubx - slack - 1e-12 * std::fabs(hi)) {
      w << "period factor range [" << p.periodicFactorRange.lb << ", " << p.periodicFactorRange.ub << "] with remainder [" << dl << ", " << du << "] does not reach the argument interval [" << p.grDomOut.lbx << ", " << p.grDomOut.ubx << "]";
      v.cls = "period"; v.fail = w.str(); return v;
    }
    if (p.periodicFactorRange.lb != std::floor(p.periodicFactorRange.lb) || p.periodicFactorRange.ub != std::floor(p.periodicFactorRange.ub)) { v.cls = "period"; v.fail = "non-integer period factor range"; return v; }
  } else { dl = p.grDomOut.lbx; du = p.grDomOut.ubx; }
  if (!std::isfinite(dl) || !std::isfinite(du) || dl > du + 1e-6) { w << "reported domain [" << dl << ", " << du << "] is not an interval"; v.cls = "domain"; v.fail = w.str(); return v; }
  // the reported domain must lie inside the requested one
  if (!p.fUsePeriod && (dl < c.lbx - 1e-9 * (1 + std::fabs(c.lbx)) || du > c.ubx + 1e-9 * (1 + std::fabs(c.ubx)))) { w << "reported domain [" << dstr(dl) << ", " << dstr(du) << "] exceeds the requested [" << dstr(c.lbx) << ", " << dstr(c.ubx) << "]"; v.cls = "domain"; v.fail = w.str(); return v; }
  if (n == 1) {      // single point: a constant; judged by the error bound over the reported domain (integers only for an integer argument)
    LD worst = 0, wx = dl;
    if (c.isint) { for (double x = std::ceil(dl); x <= std::floor(du) && x < std::ceil(dl) + 1000; ++x) { LD f = truth(c, x); LD e = fabsl(f - pl.y_[0]); if (fabsl(f) > 1) e /= fabsl(f); if (e > worst) { worst = e; wx = x; } } }
    else { for (int i = 0; i <= 16; ++i) { LD x = dl + ((LD)du - dl) * i / 16; LD f = truth(c, x); LD e = fabsl(f - pl.y_[0]); if (fabsl(f) > 1) e /= fabsl(f); if (e > worst) { worst = e; wx = x; } } }
    v.worst = (double)(worst / c.tol);
    if (dl > du) { v.cls = "degenerate-domain"; return v; }          // empty up to the code's 1e-6 domain tolerance
    if (!(worst <= (LD)c.tol * SLACK)) { v.cls = du - dl <= (1e-4 + 1e-6) * (1 + 1e-9) ? "single@resolution" : "single"; w << "a single PL point (" << pl.x_[0] << ", " << pl.y_[0] << ") for the reported domain [" << dstr(dl) << ", " << dstr(du) << "]: error " << (double)worst << " at x=" << (double)wx << " exceeds the tolerance " << c.tol; v.fail = w.str(); return v; }
    v.cls = "single-point"; return v;
  }
  // integer shortcut: one breakpoint per integer of the domain -> exact there
  bool all_int = true; for (double x : pl.x_) all_int &= x == std::floor(x);
  if (c.isint && !p.fUsePeriod && all_int) {
    double x0 = std::ceil(dl), xN = std::floor(du);
    bool per_integer = n == (size_t)(xN - x0 + 1);
    for (size_t i = 1; i < n && per_integer; ++i) per_integer = pl.x_[i] == pl.x_[i - 1] + 1;
    if (per_integer) {
      if (pl.x_.front() != x0 || pl.x_.back() != xN) { w << "integer breakpoints " << pl.x_.front() << ".." << pl.x_.back() << " do not cover the integers " << x0 << ".." << xN << " of the reported domain"; v.cls = "integer"; v.fail = w.str(); return v; }
      for (size_t i = 0; i < n; ++i) {
        LD f = truth(c, pl.x_[i]); LD e = fabsl(f - pl.y_[i]); if (fabsl(f) > 1) e /= fabsl(f);
        if (e > 1e-12) { w << "one breakpoint per integer but not exact at x=" << pl.x_[i] << ": " << pl.y_[i] << " vs " << (double)f; v.cls = "integer"; v.fail = w.str(); return v; }
      }
      v.cls = "integer-exact"; v.nontrivial = n >= 3; return v;
    }
  }
  // breakpoints start and end at the reported domain
  // (PLPoints::AddPoint drops a point closer than 1e-4 to its predecessor, and the PL constraint extends the end slopes:
  //  a gap up to that resolution is tolerated here and the error bound below is judged over the whole reported domain;
  //  for an integer argument the outermost integers of the domain are what has to be reached)
  {
    double t = 1e-4, et = 1e-9;
    double flo = dl - t - et * (1 + std::fabs(dl)), fhi = (c.isint && !p.fUsePeriod ? std::ceil(dl) : dl) + t + et * (1 + std::fabs(dl));
    double blo = (c.isint && !p.fUsePeriod ? std::floor(du) : du) - t - et * (1 + std::fabs(du)), bhi = du + t + et * (1 + std::fabs(du));
    if (pl.x_.front() < flo || pl.x_.front() > fhi || pl.x_.back() < blo || pl.x_.back() > bhi) {
      w << "breakpoints span [" << dstr(pl.x_.front()) << ", " << dstr(pl.x_.back()) << "] but the reported domain is [" << dstr(dl) << ", " << dstr(du) << "]";
      v.cls = "span"; v.fail = w.str(); return v;
    }
    if (c.isint && !p.fUsePeriod) { dl = std::ceil(dl); du = std::floor(du); if (dl > du) { v.cls = "no-integer-in-domain"; return v; } }
  }
  // error bound at every point of the reported domain
  std::vector<double> xs; xs.push_back(dl);
  for (double x : pl.x_) if (x > dl && x < du) xs.push_back(x);
  xs.push_back(du);
  LD worst = 0, wx = dl;
  for (size_t i = 1; i < xs.size(); ++i) {
    if (!(xs[i] > xs[i - 1])) continue;
    LD am; LD e = seg_max(c, pl, xs[i - 1], xs[i], am);
    if (e > worst || std::isnan((double)e)) { worst = e; wx = am; if (std::isnan((double)e)) break; }
  }
  v.worst = (double)(worst / c.tol);
  if (std::isnan((double)worst)) { w << "function or PL value is NaN inside the reported domain near x=" << (double)wx; v.cls = "nan"; v.fail = w.str(); return v; }
  if (worst > (LD)c.tol * SLACK) {
    LD f = truth(c, wx), y = pl_value(pl, wx);
    // which piece of the PL function is it in, and how long is that piece?
    double seglen;
    if (wx < pl.x_.front()) seglen = pl.x_.front() - dl;
    else if (wx > pl.x_.back()) seglen = du - pl.x_.back();
    else { size_t hi = 1; while (hi < n - 1 && (LD)pl.x_[hi] < wx) ++hi; seglen = pl.x_[hi] - pl.x_[hi - 1]; }
    w << "error " << (double)worst << " exceeds the tolerance " << c.tol << " at x=" << dstr((double)wx) << " (" << (double)wx << "): f=" << (double)f << " PL=" << (double)y << (fabsl(f) > 1 ? " (relative)" : " (absolute)") << ", " << n << " points, piece length " << seglen;
    // Recorded finding (KNOWN_FINDINGS: min-breakpoint-distance): PLPoints::AddPoint drops every point closer than 1e-4 to
    // the last kept one although the step control asked for it. A violating piece [p, q] is attributed to that when it is an
    // end gap / a piece no longer than 1e-4, or when the chord from (p+1e-4, f(p+1e-4)) to (q, PL(q)) is within the tolerance
    // on [p+1e-4, q] - i.e. a breakpoint the code wanted inside (p, p+1e-4] would have repaired it.
    bool attributable = seglen <= (1e-4 + 1e-6) * (1 + 1e-9);      // 1e-6: ApproximateSubinterval snaps a point that close to the subinterval end onto it
    if (!attributable && !c.isint && wx >= pl.x_.front() && wx <= pl.x_.back()) {
      size_t hi = 1; while (hi < n - 1 && (LD)pl.x_[hi] < wx) ++hi;
      double pp = pl.x_[hi - 1] + 1e-4, qq = pl.x_[hi];
      if (pp < qq) {
        mp::PLPoints sub; sub.x_ = {pp, qq}; sub.y_ = {(double)truth(c, pp), pl.y_[hi]};
        LD am; LD e = seg_max(c, sub, pp, qq, am);
        attributable = e <= (LD)c.tol * SLACK;
        if (!attributable) {
          // ... or the tolerance cannot be met by a single piece over [p, p+1e-4] at all: the step control must have asked for a
          // breakpoint nearer than 1e-4 to p, which AddPoint dropped, and everything up to q was built on that dropped point
          mp::PLPoints first; first.x_ = {pl.x_[hi - 1], pp}; first.y_ = {pl.y_[hi - 1], (double)truth(c, pp)};
          LD am2; LD e2 = seg_max(c, first, pl.x_[hi - 1], pp, am2);
          attributable = e2 > (LD)c.tol * SLACK;
        }
      }
    }
    v.cls = attributable ? "error-bound@resolution" : "error-bound"; v.fail = w.str(); return v;
  }
  v.cls = p.fUsePeriod ? "periodic-ok" : "ok";
  v.nontrivial = n >= 4;
  return v;
}

// ---------------------------------------------------------------- generators
static int R(int lo, int hi) { return *rc::gen::resize(100, rc::gen::inRange(lo, hi)); }
static double U(double lo, double hi) { return lo + (hi - lo) * (R(0, 1000001) / 1e6); }
static double pick(const std::vector<double>& v) { return v[R(0, (int)v.size())]; }

static Case gen_case() {
  Case c;
  c.fn = R(0, NFN);
  switch (c.fn) {
  case EXPA: case LOGA: c.prm = R(0, 3) ? pick({2, 10, 0.5, 1.5, 0.1, 3, 100, 1.01, 0.99, 2.718281828459045}) : std::exp(U(-3, 3)); if (c.prm == 1) c.prm = 2; break;
  case POW: c.prm = R(0, 4) ? pick({3, 4, 5, 6, 7, 0.5, 1.5, 2.5, 1.0 / 3, 0.1, 3.7, -1, -2, -3, -0.5, -1.5, 2, 10, -0.1}) : (R(0, 2) ? U(-4, 0) : U(0, 6)); if (c.prm == 0 || c.prm == 1) c.prm = 3; break;
  default: c.prm = 0;
  }
  // a "natural" window of the function, to draw most intervals from
  double nl, nu;
  switch (c.fn) {
  case EXP: nl = -30; nu = 30; break;
  case LOG: case LOGA: nl = 0; nu = R(0, 2) ? 100 : 1e6; break;
  case EXPA: nl = -20; nu = 20; break;
  case POW: nl = (c.prm < 0 || std::floor(c.prm) != c.prm) ? 0 : -50; nu = R(0, 2) ? 50 : 1000; break;
  case SIN: case COS: case TAN: nl = -20; nu = 20; break;
  case ASIN: case ACOS: case ATANH: nl = -1; nu = 1; break;
  case ATAN: case ASINH: nl = -100; nu = 100; break;
  case SINH: case COSH: nl = -14; nu = 14; break;
  case TANH: nl = -20; nu = 20; break;
  default: nl = 1; nu = R(0, 2) ? 100 : 1e6; break;   // acosh
  }
  static const std::vector<double> special = {-1e6, -1e5, -1000, -230.2585, -100, -14, -10, -3.141592653589793, -2, -1.5707963267948966, -1, -0.999, -0.5, -1e-3, -1e-6, 0, 1e-6, 1e-3, 0.5, 0.999, 1,
                                              1.5707963267948966, 2, 2.718281828459045, 3.141592653589793, 4.71238898038469, 6.283185307179586, 10, 14, 100, 230.2585, 1000, 1e5, 1e6};
  int shape = R(0, 10);
  double a, b;
  if (shape < 5) { a = U(nl, nu); b = U(nl, nu); }
  else if (shape < 7) { a = pick(special); b = pick(special); }
  else if (shape == 7) { a = U(nl, nu); b = a + pick({1e-7, 1e-6, 2e-6, 1e-5, 1e-4, 1e-3, 1e-2, 0.1}); }          // tiny
  else if (shape == 8) { a = pick(special); b = U(nl, nu); }
  else { a = std::floor(U(nl, nu)); b = a + R(0, 40); }                                                           // integer ends
  if (a > b) std::swap(a, b);
  if (R(0, 8) == 0) { double s = pick({1000.0, 1e4, 1e5 - 50}); a += s; b += s; }                                // far from the origin
  c.lbx = a; c.ubx = b;
  c.isint = R(0, 4) == 0;
  if (c.isint && R(0, 2)) { c.lbx = std::ceil(c.lbx); c.ubx = std::floor(c.ubx); if (c.ubx < c.lbx) c.ubx = c.lbx + R(0, 30); }
  c.tol = R(0, 3) ? pick({1e-1, 1e-2, 1e-2, 1e-3, 1e-4, 1e-5, 1e-6}) : std::pow(10.0, -U(1, 6));
  c.lby = -1e6; c.uby = 1e6;                       // what the converter passes when the result variable is free (cvt:plapprox:domain)
  int yb = R(0, 10);
  if (yb == 0) { c.lby = -1e5; c.uby = 1e5; }
  else if (yb == 1) {      // a result interval consistent with two points of the graph
    double xa = U(c.lbx, c.ubx), xb = U(c.lbx, c.ubx);
    LD fa = truth(c, xa), fb = truth(c, xb);
    if (std::isfinite((double)fa) && std::isfinite((double)fb) && fabsl(fa) < 1e6 && fabsl(fb) < 1e6) {
      c.lby = (double)std::min(fa, fb) - 1e-3; c.uby = (double)std::max(fa, fb) + 1e-3;
    }
  }
  return c;
}

static const char* g_current = nullptr;
static void on_alarm(int) { const char m[] = "PL-TIMEOUT\n"; (void)!write(2, m, sizeof m - 1); _exit(42); }

static Verdict run_case(const Case& c) {
  if (g_current) { std::ofstream f(g_current); f << line_of(c) << "\n"; }
  alarm(getenv("PL_ALARM") ? atoi(getenv("PL_ALARM")) : 60);
  Out o = approximate(c);
  Verdict v = judge(c, o);
  alarm(0);
  return v;
}

int main(int argc, char** argv) {
  std::string mode = argc > 1 ? argv[1] : "rc";
  signal(SIGALRM, on_alarm);
  g_current = getenv("PL_CURRENT");
  if ((mode == "replay" || mode == "show" || mode == "class") && argc > 2) {
    std::ifstream f(argv[2]); std::string l; std::getline(f, l);
    Case c = parse(l);
    if (mode == "show") {
      Out o = approximate(c);
      printf("%s\n", human(c).c_str());
      if (o.threw) { printf("threw: %s\n", o.what.c_str()); return 0; }
      printf("grDomOut x [%.17g, %.17g] y [%.17g, %.17g] periodic=%d period=%.17g factor [%g, %g] rmd [%.17g, %.17g]\n", o.p.grDomOut.lbx, o.p.grDomOut.ubx, o.p.grDomOut.lby, o.p.grDomOut.uby,
             (int)o.p.fUsePeriod, o.p.periodLength, o.p.periodicFactorRange.lb, o.p.periodicFactorRange.ub, o.p.periodRemainderRange.lb, o.p.periodRemainderRange.ub);
      for (size_t i = 0; i < o.p.plPoints.x_.size() && i < 60; ++i) printf("  (%.17g, %.17g)\n", o.p.plPoints.x_[i], o.p.plPoints.y_[i]);
      printf("  %zu points\n", o.p.plPoints.x_.size());
      return 0;
    }
    Verdict v = run_case(c);
    if (mode == "class") { printf("%s\n", v.cls.c_str()); return 0; }
    if (!v.fail.empty()) { printf("FAIL %s: %s\n", human(c).c_str(), v.fail.c_str()); return 1; }
    printf("OK %s: %s, %zu points, worst error/tolerance %.3f\n", human(c).c_str(), v.cls.c_str(), v.npoints, v.worst);
    return 0;
  }
  // known-finding exclusions, by construction (see KNOWN_FINDINGS.jsonl); each is probed by fixed inputs instead
  std::set<std::string> skip;
  if (const char* s = getenv("PL_SKIP")) { std::istringstream i(s); std::string t; while (i >> t) skip.insert(t); }
  unsigned long cases = 0, nontrivial = 0, skipped_known = 0;
  std::map<std::string, unsigned long> classes, fns; std::set<size_t> distinct;
  std::vector<std::string> samples; std::string last_fail;
  double worst_ok = 0;
  const char* failp = getenv("PL_FAIL");
  const char* scanp = getenv("PL_SCAN");       // exploration aid: log every failing case instead of stopping at the first
  bool ok = rc::check("PL approximation within tolerance", [&]() {
    Case c = gen_case();
    ++cases;
    Verdict v = run_case(c);
    if (!v.fail.empty() && skip.count(v.cls)) { ++skipped_known; ++classes["known:" + v.cls]; return; }
    ++classes[v.cls]; ++fns[kNames[c.fn]];
    if (v.fail.empty() && v.worst > worst_ok) worst_ok = v.worst;
    if (v.nontrivial) { ++nontrivial; distinct.insert(std::hash<std::string>()(line_of(c))); }
    if (samples.size() < 3 && v.nontrivial) { char b[64]; snprintf(b, sizeof b, " -> %s, %zu points, err/tol %.3f", v.cls.c_str(), v.npoints, v.worst); samples.push_back(human(c) + b); }
    if (!v.fail.empty() && scanp) { std::ofstream f(scanp, std::ios::app); f << line_of(c) << " # " << v.cls << " " << human(c) << ": " << v.fail << "\n"; return; }
    if (!v.fail.empty()) { last_fail = human(c) + ": " + v.fail; if (failp) { std::ofstream f(failp); f << line_of(c) << "\n" << v.cls << "\n"; } }
    RC_ASSERT(v.fail.empty());
  });
  printf("{\"ok\":%s,\"cases\":%lu,\"nontrivial\":%lu,\"distinct_nontrivial\":%zu,\"skipped_known\":%lu,\"worst_ok_ratio\":%.4f,\"classes\":{", ok ? "true" : "false", cases, nontrivial, distinct.size(), skipped_known, worst_ok);
  bool first = true;
  for (auto& kv : classes) { printf("%s\"%s\":%lu", first ? "" : ",", kv.first.c_str(), kv.second); first = false; }
  printf("},\"functions\":{"); first = true;
  for (auto& kv : fns) { printf("%s\"%s\":%lu", first ? "" : ",", kv.first.c_str(), kv.second); first = false; }
  printf("},\"fail\":\"");
  for (char ch : last_fail) { if (ch == '"' || ch == '\\') printf("\\%c", ch); else if ((unsigned char)ch < 32 || (unsigned char)ch > 126) printf("?"); else putchar(ch); }
  printf("\",\"samples\":[");
  for (size_t i = 0; i < samples.size(); ++i) printf("%s\"%s\"", i ? "," : "", samples[i].c_str());
  printf("]}\n");
  return 0;
}
