// ModelManagerWithPB<mp::Problem> in its own TU (as solvers/visitor does)
#include "mp/model-mgr-with-std-pb.hpp"
