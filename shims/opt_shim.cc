// C11: solver option parsing through the real BasicSolver::ParseOptions.
// Usage: opt_shim <script>   (one directive per line, values hex-encoded so that any byte sequence can be passed)
//   handler throw|record          default error handler (throws mp::Error) or a recording one (parsing continues)
//   exe <hex>                     exe path (decides <exe>_options)
//   env <hex name> <hex value>    environment variable to set before parsing (mp_options, optsolver_options, <exe>_options)
//   arg <hex>                     one command-line argument (after the stub), in order
//   noecho                        pass NO_OPTION_ECHO
// Prints one JSON object: return value, exception, recorded errors, echo output, and the value of every option.
// Every input string lives in an exactly sized heap buffer, so ASan sees any read past its terminating NUL.
#include <cstdio>
#include <cstdlib>
#include <cstring>
#include <fstream>
#include <iostream>
#include <map>
#include <sstream>
#include <string>
#include <vector>

#include "mp/solver-base.h"
#include "mp/solver-opt.h"

static std::string unhex(const std::string& s) { if (s == "-") return ""; std::string r; for (size_t i = 0; i + 1 < s.size(); i += 2) r += (char)strtol(s.substr(i, 2).c_str(), 0, 16); return r; }
static std::string jstr(const std::string& s) {
  std::string r = "\"";
  for (unsigned char c : s) { char b[8]; if (c == '"' || c == '\\') { r += '\\'; r += c; } else if (c < 32 || c > 126) { snprintf(b, sizeof b, "\\u%04x", c); r += b; } else r += c; }
  return r + "\"";
}

struct Recorder : mp::ErrorHandler, mp::OutputHandler {
  std::vector<std::string> errors; std::string out;
  void HandleError(fmt::CStringRef m) override { errors.push_back(m.c_str()); }
  void HandleOutput(fmt::CStringRef m) override { out += m.c_str(); }
};

class OptSolver : public mp::BasicSolver {
 public:
  int iterlim = 11, method = -1; double timelim = 1e9, mipgap = 1e-4; std::string logfile = "init.log", param;
  long long nodelim = 7; int flag_debug = 0;
  int acc_int = 3; double acc_dbl = 0.5; std::string acc_str = "s0";
  std::map<std::string, long long> wc_int; std::map<std::string, double> wc_dbl;
  std::vector<std::string> set_calls;     // every setter invocation, in order: "name=value"

  int GetAccInt(const mp::SolverOption&) const { return acc_int; }
  void SetAccInt(const mp::SolverOption& o, int v) { acc_int = v; note(o, std::to_string(v)); }
  double GetAccDbl(const mp::SolverOption&) const { return acc_dbl; }
  void SetAccDbl(const mp::SolverOption& o, double v) { acc_dbl = v; char b[64]; snprintf(b, sizeof b, "%a", v); note(o, b); }
  std::string GetAccStr(const mp::SolverOption&) const { return acc_str; }
  void SetAccStr(const mp::SolverOption& o, fmt::StringRef v) { acc_str = v.to_string(); note(o, acc_str); }
  int GetWcInt(const mp::SolverOption& o) const { auto it = wc_int.find(o.wc_keybody_last()); return it == wc_int.end() ? 0 : (int)it->second; }
  void SetWcInt(const mp::SolverOption& o, int v) { wc_int[o.wc_keybody_last()] = v; }
  double GetWcDbl(const mp::SolverOption& o) const { auto it = wc_dbl.find(o.wc_keybody_last()); return it == wc_dbl.end() ? 0 : it->second; }
  void SetWcDbl(const mp::SolverOption& o, double v) { wc_dbl[o.wc_keybody_last()] = v; }
  void note(const mp::SolverOption& o, const std::string& v) { set_calls.push_back(std::string(o.name()) + "=" + v); }

  struct DebugFlag : mp::SolverOption {
    OptSolver& s;
    DebugFlag(OptSolver& s) : mp::SolverOption("tech:turbo turbo trb", "A flag.", mp::ValueArrayRef(), true), s(s) {}
    void Write(fmt::Writer& w) override { w << s.flag_debug; }
    void Parse(const char*&, bool) override { s.flag_debug = 1; }
    Option_Type type() override { return Option_Type::BOOL; }
  };

  OptSolver() : mp::BasicSolver("optsolver", "Opt Solver", 20240101, 0) {
    AddStoredOption("lim:iter iterlim iterations", "int", iterlim);
    AddStoredOption("alg:method method lpmethod", "int", method);
    AddStoredOption("lim:time timelim timelimit", "dbl", timelim);
    AddStoredOption("mip:gap mipgap", "dbl", mipgap);
    AddStoredOption("tech:logfile logfile", "str", logfile);
    AddStoredOption("tech:param param", "str", param);
    AddIntOption("acc:int accint", "int with accessors", &OptSolver::GetAccInt, &OptSolver::SetAccInt);
    AddDblOption("acc:dbl accdbl", "dbl with accessors", &OptSolver::GetAccDbl, &OptSolver::SetAccDbl);
    AddStrOption("acc:str accstr", "str with accessors", &OptSolver::GetAccStr, &OptSolver::SetAccStr);
    AddIntOption("obj:*:priority obj_*_priority", "wildcard int", &OptSolver::GetWcInt, &OptSolver::SetWcInt);
    AddDblOption("obj:*:weight obj_*_weight", "wildcard dbl", &OptSolver::GetWcDbl, &OptSolver::SetWcDbl);
    AddOption(OptionPtr(new DebugFlag(*this)));
    AddOptionSynonyms_Inline_Back("maxiter", "lim:iter");
    AddOptionSynonyms_OutOfLine("outofline_gap", "mip:gap");
  }
  bool version_requested() const { return false; }
};

static void run_case(std::istream& f) {
  std::string line;
  bool record = false; unsigned flags = 0; std::string exe;
  std::vector<char*> args; std::vector<std::string> envs;
  while (std::getline(f, line)) {
    std::istringstream is(line); std::string k, a, b; is >> k >> a >> b;
    if (k == "end") break;
    if (k == "handler") record = a == "record";
    else if (k == "noecho") flags |= mp::BasicSolver::NO_OPTION_ECHO;
    else if (k == "exe") exe = unhex(a);
    else if (k == "env") { setenv(unhex(a).c_str(), unhex(b).c_str(), 1); envs.push_back(unhex(a)); }       // glibc keeps an exactly sized heap copy
    else if (k == "arg") { std::string v = unhex(a); char* p = new char[v.size() + 1]; std::memcpy(p, v.c_str(), v.size() + 1); args.push_back(p); }
  }
  args.push_back(nullptr);
  {
  OptSolver s; Recorder rec;
  s.set_output_handler(&rec);
  if (record) s.set_error_handler(&rec);
  if (!exe.empty()) s.set_exe_path(exe.c_str());
  bool ret = false; std::string thrown, thrown_type;
  try { ret = s.ParseOptions(args.data(), flags); }
  catch (const mp::OptionError& e) { thrown = e.what(); thrown_type = "OptionError"; }
  catch (const mp::Error& e) { thrown = e.what(); thrown_type = "Error"; }
  catch (const std::exception& e) { thrown = e.what(); thrown_type = "std::exception"; }
  std::ostringstream o;
  o << "{\"ret\":" << (ret ? "true" : "false") << ",\"thrown\":" << jstr(thrown) << ",\"thrown_type\":" << jstr(thrown_type) << ",\"errors\":[";
  for (size_t i = 0; i < rec.errors.size(); ++i) o << (i ? "," : "") << jstr(rec.errors[i]);
  o << "],\"echo\":" << jstr(rec.out) << ",\"values\":{";
  char b[64];
  o << "\"lim:iter\":" << s.iterlim << ",\"alg:method\":" << s.method;
  snprintf(b, sizeof b, "%a", s.timelim); o << ",\"lim:time\":\"" << b << "\"";
  snprintf(b, sizeof b, "%a", s.mipgap); o << ",\"mip:gap\":\"" << b << "\"";
  o << ",\"tech:logfile\":" << jstr(s.logfile) << ",\"tech:param\":" << jstr(s.param);
  o << ",\"acc:int\":" << s.acc_int; snprintf(b, sizeof b, "%a", s.acc_dbl); o << ",\"acc:dbl\":\"" << b << "\"" << ",\"acc:str\":" << jstr(s.acc_str);
  o << ",\"tech:turbo\":" << s.flag_debug;
  long long wantsol = -1, objno = -1;
  try { wantsol = s.GetIntOption("tech:wantsol"); objno = s.GetIntOption("obj:no"); } catch (...) {}
  o << ",\"tech:wantsol\":" << wantsol << ",\"obj:no\":" << objno;
  o << ",\"wc_int\":{"; { bool first = true; for (auto& kv : s.wc_int) { o << (first ? "" : ",") << jstr(kv.first) << ":" << kv.second; first = false; } } o << "}";
  o << ",\"wc_dbl\":{"; { bool first = true; for (auto& kv : s.wc_dbl) { snprintf(b, sizeof b, "%a", kv.second); o << (first ? "" : ",") << jstr(kv.first) << ":\"" << b << "\""; first = false; } } o << "}";
  o << "},\"set_calls\":[";
  for (size_t i = 0; i < s.set_calls.size(); ++i) o << (i ? "," : "") << jstr(s.set_calls[i]);
  o << "]}";
  printf("%s\n", o.str().c_str());
  fflush(stdout);
  }
  for (auto& e : envs) unsetenv(e.c_str());
  for (char* p : args) delete[] p;
}

// opt_shim <script>: one case from a file;  opt_shim -: cases from stdin, each terminated by an "end" line (one JSON line per case)
int main(int argc, char** argv) {
  if (argc < 2) return 2;
  if (std::string(argv[1]) == "--names") {     // every registered name and inline synonym, one per line (the registry's content, not its lookup)
    OptSolver s;
    for (auto it = s.option_begin(); it != s.option_end(); ++it) { printf("%s\n", it->name()); for (auto& y : it->inline_synonyms()) printf("%s\n", y.c_str()); }
    return 0;
  }
  if (std::string(argv[1]) == "-") { while (std::cin.peek() != EOF) run_case(std::cin); return 0; }
  std::ifstream f(argv[1]);
  run_case(f);
  return 0;
}
