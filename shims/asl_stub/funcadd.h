/* Minimal stand-in for ASL's funcadd.h: just what src/gsl/amplgsl.cc uses (ASL itself is not in the repository).
   Field names and meanings follow ASL; the layout only has to agree between amplgsl.cc and the shim that includes both. */
#ifndef VERIF_FUNCADD_H_
#define VERIF_FUNCADD_H_
#include <stdarg.h>
#include <stddef.h>

typedef double real;
struct AmplExports;
struct TMInfo;
typedef struct arglist arglist;
typedef struct AmplExports AmplExports;
typedef struct TMInfo TMInfo;

struct arglist {
  int n;             /* number of args */
  int nr;            /* number of real args */
  int *at;           /* argument types */
  real *ra;          /* real args */
  const char **sa;   /* symbolic args */
  real *derivs;      /* if non-null, store partials here */
  real *hes;         /* if non-null, store second partials here */
  char *dig;         /* dig[i] != 0: arg i is constant, no derivative wanted */
  void *funcinfo;    /* passed to Addfunc */
  AmplExports *AE;
  void *f;
  void *tva;
  char *Errmsg;      /* set to describe an error */
  TMInfo *TMI;
  char *Private;
  int nin, nout, nsin, nsout;
};

typedef real (*rfunc)(arglist *);
typedef void (*Exitfunc)(void *);

struct AmplExports {
  long ASLdate;
  void (*Addfunc)(const char *name, rfunc f, int type, int nargs, void *funcinfo, AmplExports *ae);
  int (*SnprintF)(char *, size_t, const char *, ...);
  int (*VsnprintF)(char *, size_t, const char *, va_list);
  void *(*Tempmem)(TMInfo *, size_t);
  void (*AtReset)(AmplExports *, Exitfunc, void *);
};

enum { FUNCADD_REAL_VALUED = 0, FUNCADD_STRING_VALUED = 2, FUNCADD_RANDOM_VALUED = 4 };

#define addfunc(name, f, type, nargs, funcinfo) ae->Addfunc(name, f, type, nargs, funcinfo, ae)
#define at_reset(f, v) ae->AtReset(ae, f, v)

#endif
