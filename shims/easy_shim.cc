// C08: the matrix-based "easy" model API (NLModel / NLSolver) writes the given LP/QP and un-permutes solutions.
// rapidcheck generates a matrix model; NLSolver::LoadModel writes it; the file is read back twice (mp::Problem for types,
// rows and the objective as a function; the recording handler of nlw_shim for initial values and suffixes) and compared
// with the model up to the permutation the writer reports; then a generated .sol file for the written problem is read
// through NLSolver::ReadSolution and compared in the caller's order.
//   easy_shim rc | easy_shim replay <file>
#define NLW_SHIM_AS_LIBRARY
#include "nlw_shim.cc"

#include "mp/problem.h"
#include "mp/nl-solver.h"
#include "mp/nl-solver.hpp"
#include "mp/nl-model.h"

struct Ent { int r, c; double v; };
struct ESuf { std::string name; int kind; std::vector<double> vals; };
struct EModel {
  int n = 1; std::vector<double> lb, ub; std::vector<int> type; bool have_types = true;
  int m = 0; std::vector<double> rlb, rub; std::vector<Ent> A;       // rowwise, sorted by row
  int sense = 0; double c0 = 0; std::vector<double> c; bool have_c = true;
  int qformat = 2; std::vector<Ent> Q;                                // rowwise (r = row/start index, c = stored index)
  std::vector<std::pair<int, double>> ini_x, ini_y; std::vector<ESuf> sufs; bool names = false;
  int text = 1, comments = 0;
  // the answer of the "solver", in the written problem's order
  std::vector<double> sol_x, sol_y; int solve_code = 0; std::vector<ESuf> sol_sufs;
};

static double evalx(mp::NumericExpr e, const std::vector<double>& x, bool& ok) {
  if (!e) return 0;
  namespace ex = mp::expr;
  switch (e.kind()) {
  case ex::NUMBER: return mp::Cast<mp::NumericConstant>(e).value();
  case ex::VARIABLE: return x[mp::Cast<mp::Reference>(e).index()];
  case ex::MINUS: return -evalx(mp::Cast<mp::UnaryExpr>(e).arg(), x, ok);
  case ex::POW2: { double a = evalx(mp::Cast<mp::UnaryExpr>(e).arg(), x, ok); return a * a; }
  case ex::ADD: case ex::SUB: case ex::MUL: { auto b = mp::Cast<mp::BinaryExpr>(e); double l = evalx(b.lhs(), x, ok), r = evalx(b.rhs(), x, ok); return e.kind() == ex::ADD ? l + r : e.kind() == ex::SUB ? l - r : l * r; }
  case ex::SUM: { double s = 0; auto it = mp::Cast<mp::IteratedExpr>(e); for (auto a = it.begin(); a != it.end(); ++a) s += evalx(*a, x, ok); return s; }
  default: ok = false; return 0;
  }
}

static bool close_enough(double a, double b, double scale) { if (!std::isfinite(a) || !std::isfinite(b) || !std::isfinite(scale)) return true;   /* overflow region: not judged */ return a == b || std::fabs(a - b) <= 1e-9 * (std::fabs(scale) + std::fabs(a) + std::fabs(b)) + 1e-300; }

static std::string check(const EModel& em) {
  std::ostringstream w;
  // ---- build the NLModel exactly as a user of the API would
  mp::NLModel nlm("easy");
  NLW2_ColData_C cd; cd.num_col_ = em.n; cd.lower_ = em.lb.data(); cd.upper_ = em.ub.data(); cd.type_ = em.have_types ? em.type.data() : nullptr;
  nlm.SetCols(cd);
  std::vector<std::string> vn, rn; std::vector<const char*> vnp, rnp;
  if (em.names) { for (int j = 0; j < em.n; ++j) vn.push_back("col_" + std::to_string(j)); for (int i = 0; i < em.m; ++i) rn.push_back("row_" + std::to_string(i));
    for (auto& s : vn) vnp.push_back(s.c_str()); for (auto& s : rn) rnp.push_back(s.c_str()); nlm.SetColNames(vnp.data()); if (em.m) nlm.SetRowNames(rnp.data()); nlm.SetObjName("the_obj"); }
  std::vector<size_t> astart(em.m ? em.m : 1, 0); std::vector<int> aidx; std::vector<double> aval;
  for (int i = 0; i < em.m; ++i) { astart[i] = aidx.size(); for (auto& e : em.A) if (e.r == i) { aidx.push_back(e.c); aval.push_back(e.v); } }
  NLW2_SparseMatrix_C A; A.num_colrow_ = em.m; A.format_ = NLW2_MatrixFormatRowwise; A.num_nz_ = aidx.size(); A.start_ = astart.data(); A.index_ = aidx.data(); A.value_ = aval.data();
  nlm.SetRows(em.m, em.rlb.data(), em.rub.data(), A);
  nlm.SetLinearObjective((NLW2_ObjSense)em.sense, em.c0, em.have_c ? em.c.data() : nullptr);
  std::vector<size_t> qstart(em.n, 0); std::vector<int> qidx; std::vector<double> qval;
  for (int i = 0; i < em.n; ++i) { qstart[i] = qidx.size(); for (auto& e : em.Q) if (e.r == i) { qidx.push_back(e.c); qval.push_back(e.v); } }
  NLW2_SparseMatrix_C Q; Q.num_colrow_ = em.n; Q.format_ = NLW2_MatrixFormatRowwise; Q.num_nz_ = qidx.size(); Q.start_ = qstart.data(); Q.index_ = qidx.data(); Q.value_ = qval.data();
  if (!qidx.empty()) nlm.SetHessian((NLW2_HessianFormat)em.qformat, Q);
  std::vector<int> ixi, iyi; std::vector<double> ixv, iyv;
  for (auto& t : em.ini_x) { ixi.push_back(t.first); ixv.push_back(t.second); } for (auto& t : em.ini_y) { iyi.push_back(t.first); iyv.push_back(t.second); }
  if (!ixi.empty()) nlm.SetWarmstart({(int)ixi.size(), ixi.data(), ixv.data()});
  if (!iyi.empty()) nlm.SetDualWarmstart({(int)iyi.size(), iyi.data(), iyv.data()});
  for (auto& s : em.sufs) nlm.AddSuffix({s.name, s.kind, s.vals});
  // ---- write through NLSolver
  std::string stub = g_dir + "/e";
  for (const char* ext : {".nl", ".col", ".row", ".sol"}) unlink((stub + ext).c_str());
  mp::NLUtils utils; mp::NLSolver slv(&utils);
  slv.SetFileStub(stub);
  NLW2_NLOptionsBasic_C opts = NLW2_MakeNLOptionsBasic_C_Default(); opts.n_text_mode_ = em.text; opts.want_nl_comments_ = em.comments;
  slv.SetNLOptions(opts);
  if (!slv.LoadModel(static_cast<const mp::NLModel&>(nlm))) return std::string("LoadModel failed: ") + slv.GetErrorMessage();
  mp::NLModel::PreprocessData pd;
  { std::string stub2 = g_dir + "/e2"; std::string err = nlm.WriteNL(stub2, opts, utils, pd); for (const char* ext : {".nl", ".col", ".row"}) unlink((stub2 + ext).c_str()); if (!err.empty()) return "WriteNL failed: " + err; }
  if ((int)pd.vperm_.size() != em.n || (int)pd.vperm_inv_.size() != em.n) return "permutation of the wrong size reported";
  { std::vector<int> seen(em.n, 0); for (int j = 0; j < em.n; ++j) { int p = pd.vperm_[j]; if (p < 0 || p >= em.n || seen[p]++) return "reported vperm is not a permutation"; if (pd.vperm_inv_[p] != j) return "reported vperm_inv is not the inverse of vperm"; } }
  // ---- read back: mp::Problem
  mp::Problem p;
  try { mp::ReadNLFile(stub + ".nl", p); }
  catch (const std::exception& e) { return std::string("the NL reader rejects the written file: ") + e.what(); }
  if (p.num_vars() != em.n) return "number of variables differs";
  for (int j = 0; j < em.n; ++j) {
    auto v = p.var(pd.vperm_[j]);
    bool isint = em.have_types && em.type[j] != 0;
    if (dstr(v.lb()) != dstr(lbnd(em.lb[j])) || dstr(v.ub()) != dstr(ubnd(em.ub[j]))) { w << "bounds of original variable " << j << " (position " << pd.vperm_[j] << "): given [" << em.lb[j] << ", " << em.ub[j] << "], read [" << v.lb() << ", " << v.ub() << "]"; return w.str(); }
    if ((v.type() == mp::var::INTEGER) != isint) { w << "integrality of original variable " << j << " (position " << pd.vperm_[j] << "): given " << isint << ", read " << (v.type() == mp::var::INTEGER); return w.str(); }
  }
  if (p.num_algebraic_cons() != em.m) return "number of rows differs";
  if (p.num_objs() != 1) return "number of objectives differs";
  // evaluation points in the caller's order, and the same point in the written order
  std::vector<std::vector<double>> pts;
  for (int k = 0; k < 4; ++k) { std::vector<double> x(em.n); for (int j = 0; j < em.n; ++j) x[j] = k == 0 ? 0 : k == 1 ? 1 : ((j * 7 + k * 3) % 11) - 5 + 0.25 * k; pts.push_back(x); }
  for (int j = 0; j < em.n && j < 3; ++j) { std::vector<double> x(em.n, 0.0); x[j] = 1; pts.push_back(x); if (j + 1 < em.n) { x[j + 1] = 1; pts.push_back(x); } }
  for (auto& x : pts) {
    std::vector<double> xp(em.n); for (int j = 0; j < em.n; ++j) xp[pd.vperm_[j]] = x[j];
    for (int i = 0; i < em.m; ++i) {
      auto con = p.algebraic_con(i);
      double want = 0, scale = 0; for (auto& e : em.A) if (e.r == i) { want += e.v * x[e.c]; scale += std::fabs(e.v * x[e.c]); }
      double got = 0; for (auto t = con.linear_expr().begin(); t != con.linear_expr().end(); ++t) got += t->coef() * xp[t->var_index()];
      bool ok = true; got += evalx(con.nonlinear_expr(), xp, ok);
      if (!ok) return "unexpected expression kind in a row";
      if (!close_enough(want, got, scale)) { w << "row " << i << " evaluates to " << got << " instead of " << want << " at a test point"; return w.str(); }
    }
    auto obj = p.obj(0);
    double want = em.c0, scale = std::fabs(em.c0);
    if (em.have_c) for (int j = 0; j < em.n; ++j) { want += em.c[j] * x[j]; scale += std::fabs(em.c[j] * x[j]); }
    for (auto& e : em.Q) { want += 0.5 * e.v * x[e.r] * x[e.c]; scale += std::fabs(e.v * x[e.r] * x[e.c]); }
    double got = 0; for (auto t = obj.linear_expr().begin(); t != obj.linear_expr().end(); ++t) got += t->coef() * xp[t->var_index()];
    bool ok = true; got += evalx(obj.nonlinear_expr(), xp, ok);
    if (!ok) return "unexpected expression kind in the objective";
    if (!close_enough(want, got, scale)) { w << "objective evaluates to " << got << " instead of " << want << " at a test point (offset " << em.c0 << ", " << em.Q.size() << " Hessian entries)"; return w.str(); }
  }
  for (int i = 0; i < em.m; ++i) { auto con = p.algebraic_con(i); if (dstr(con.lb()) != dstr(lbnd(em.rlb[i])) || dstr(con.ub()) != dstr(ubnd(em.rub[i]))) { w << "range of row " << i << ": given [" << em.rlb[i] << ", " << em.rub[i] << "], read [" << con.lb() << ", " << con.ub() << "]"; return w.str(); } }
  if ((p.obj(0).type() == mp::obj::MAX) != (em.sense == 1)) return "objective sense differs";
  // ---- read back: recording handler for warm starts and suffixes
  Rec r;
  try { mp::ReadNLFile(stub + ".nl", r); } catch (const std::exception& e) { return std::string("second read failed: ") + e.what(); }
  { std::map<int, double> last; for (auto& t : em.ini_x) last[t.first] = t.second;      // a later entry for the same column wins in the reader as well
    for (auto& t : last) { auto it = r.it.find("ig " + std::to_string(pd.vperm_[t.first])); if (it == r.it.end() || it->second != dstr(t.second)) { w << "warm start of original variable " << t.first << " did not follow it"; return w.str(); } } }
  { std::map<int, double> last; for (auto& t : em.ini_y) last[t.first] = t.second;
    for (auto& t : last) { auto it = r.it.find("idg " + std::to_string(t.first)); if (it == r.it.end() || it->second != dstr(t.second)) { w << "dual warm start of row " << t.first << " not read back"; return w.str(); } } }
  for (auto& s : em.sufs) {
    std::map<int, double> want; for (size_t i = 0; i < s.vals.size(); ++i) if (s.vals[i] != 0) want[(s.kind & 3) == 0 ? pd.vperm_[i] : (int)i] = (s.kind & 4) ? s.vals[i] : std::round(s.vals[i]);
    if (want.empty()) continue;
    std::string key = "suf " + s.name + " " + std::to_string(s.kind & 3) + ((s.kind & 4) ? " dbl" : " int"), v = std::to_string(want.size()) + ":";
    // order of entries in the file is the caller's order; compare as sets
    auto it = r.it.find(key);
    if (it == r.it.end()) return "suffix " + s.name + " not read back";
    std::set<std::string> ws, gs; for (auto& t : want) ws.insert(std::to_string(t.first) + ":" + ((s.kind & 4) ? dstr(t.second) : std::to_string((int)t.second)));
    { std::istringstream is(it->second.substr(it->second.find(':') + 1)); std::string tok; while (is >> tok) gs.insert(tok); }
    if (ws != gs) return "suffix " + s.name + " values did not follow their items";
  }
  if (em.names) {
    std::string want; std::vector<std::string> byPos(em.n); for (int j = 0; j < em.n; ++j) byPos[pd.vperm_[j]] = vn[j]; for (auto& s : byPos) want += s + "\n";
    if (read_lines(stub + ".col") != want) return "column names did not follow their columns";
    if (em.m) { std::string wr; for (auto& s : rn) wr += s + "\n"; wr += "the_obj\n"; if (read_lines(stub + ".row") != wr) return "row names file differs"; }
  }
  // ---- the way back: a .sol file for the written problem, read through NLSolver::ReadSolution
  {
    std::ofstream f(stub + ".sol");
    f << "solver message line\n\nOptions\n3\n0\n1\n0\n" << em.m << "\n" << em.sol_y.size() << "\n" << em.n << "\n" << em.sol_x.size() << "\n";
    char b[64];
    for (double d : em.sol_y) { snprintf(b, sizeof b, "%.17g", d); f << b << "\n"; }
    for (double d : em.sol_x) { snprintf(b, sizeof b, "%.17g", d); f << b << "\n"; }
    f << "objno 0 " << em.solve_code << "\n";
    for (auto& s : em.sol_sufs) {
      int nnz = 0; for (double d : s.vals) nnz += d != 0;
      f << "suffix " << s.kind << " " << nnz << " " << s.name.size() + 1 << " 0 0\n" << s.name << "\n";
      for (size_t i = 0; i < s.vals.size(); ++i) if (s.vals[i] != 0) { if (s.kind & 4) { snprintf(b, sizeof b, "%.17g", s.vals[i]); f << i << " " << b << "\n"; } else f << i << " " << (long)s.vals[i] << "\n"; }
    }
  }
  mp::NLSolution sol = slv.ReadSolution();
  if (!sol) return std::string("ReadSolution failed: ") + slv.GetErrorMessage();
  if (sol.solve_result_ != em.solve_code) return "solve result differs";
  if (!em.sol_x.empty()) {
    if ((int)sol.x_.size() != em.n) return "primal vector of the wrong length";
    for (int j = 0; j < em.n; ++j) if (dstr(sol.x_[j]) != dstr(em.sol_x[pd.vperm_[j]])) { w << "solution value of original variable " << j << " is " << sol.x_[j] << ", the solver's value at its position " << pd.vperm_[j] << " was " << em.sol_x[pd.vperm_[j]]; return w.str(); }
    {
      double want = em.c0, scale = std::fabs(em.c0); if (em.have_c) for (int j = 0; j < em.n; ++j) { want += em.c[j] * sol.x_[j]; scale += std::fabs(em.c[j] * sol.x_[j]); }
      for (auto& e : em.Q) { want += 0.5 * e.v * sol.x_[e.r] * sol.x_[e.c]; scale += std::fabs(e.v * sol.x_[e.r] * sol.x_[e.c]); }
      double got = nlm.ComputeObjValue(sol.x_.data());
      if (!close_enough(want, got, scale)) { w << "recomputed objective value " << got << " instead of " << want; return w.str(); }
    }
  }
  if (sol.y_.size() != em.sol_y.size()) return "dual vector of the wrong length";
  for (size_t i = 0; i < em.sol_y.size(); ++i) if (dstr(sol.y_[i]) != dstr(em.sol_y[i])) return "dual value differs";
  for (auto& s : em.sol_sufs) {
    int nnz = 0; for (double d : s.vals) nnz += d != 0; if (!nnz) continue;
    const mp::NLSuffix* g = sol.suffixes_.Find(s.name, s.kind);
    if (!g) return "returned suffix " + s.name + " missing";
    for (size_t i = 0; i < s.vals.size(); ++i) { size_t at = (s.kind & 3) == 0 ? (size_t)pd.vperm_inv_[i] : i; double wv = (s.kind & 4) ? s.vals[i] : (double)(long)s.vals[i];
      if (at >= g->values_.size() || dstr(g->values_[at]) != dstr(wv)) { w << "returned suffix " << s.name << ": value at the written position " << i << " did not go back to its item"; return w.str(); } }
  }
  return "";
}

// ---------------------------------------------------------------- generator
static double gd() { int c = R(0, 6); if (c < 3) return R(-6, 7); if (c == 3) return R(-40, 41) / 8.0; return gen_double(); }
static EModel gen_em() {
  EModel m; m.n = R(1, 7); m.have_types = R(0, 5) != 0;
  for (int j = 0; j < m.n; ++j) {
    int t = m.have_types ? (R(0, 5) < 2) : 0; m.type.push_back(t);
    double l, u; if (t && R(0, 2)) { l = 0; u = 1; } else gen_bounds(l, u);
    m.lb.push_back(l); m.ub.push_back(u);
  }
  m.m = R(0, 5);
  for (int i = 0; i < m.m; ++i) { double l, u; gen_bounds(l, u); m.rlb.push_back(l); m.rub.push_back(u); std::set<int> used; for (int k = R(0, m.n + 1); k > 0; --k) { int c = R(0, m.n); if (used.insert(c).second) m.A.push_back({i, c, gd()}); } }
  m.sense = R(0, 2); m.c0 = R(0, 2) ? 0 : gd(); m.have_c = R(0, 6) != 0; for (int j = 0; j < m.n; ++j) m.c.push_back(R(0, 3) ? gd() : 0.0);
  int qs = R(0, 6);      // 0/1: none; 2 diagonal only; 3 off-diagonal only; 4 mixed with duplicates; 5 one triangle
  m.qformat = R(1, 3);
  if (qs >= 2) for (int k = R(1, 2 * m.n + 1); k > 0; --k) {
    int r = R(0, m.n), c = R(0, m.n);
    if (qs == 2) c = r; if (qs == 3 && c == r) { if (m.n == 1) continue; c = (r + 1) % m.n; } if (qs == 5 && c > r) std::swap(r, c);
    m.Q.push_back({r, c, gd()});
  }
  std::stable_sort(m.Q.begin(), m.Q.end(), [](const Ent& a, const Ent& b) { return a.r < b.r; });
  for (int j = 0; j < m.n; ++j) if (R(0, 4) == 0) m.ini_x.push_back({j, gd()});
  for (int i = 0; i < m.m; ++i) if (R(0, 4) == 0) m.ini_y.push_back({i, gd()});
  std::set<std::string> seen;
  auto gen_sufs = [&](std::vector<ESuf>& out, bool result) {
    for (int k = R(0, 3); k > 0; --k) {
      ESuf s; s.name = *rc::gen::elementOf(std::vector<std::string>{"sstatus", "priority", "myreal", "iis", "zz"}); s.kind = R(0, 4) | (R(0, 2) ? 4 : 0);
      int cnt = (s.kind & 3) == 0 ? m.n : (s.kind & 3) == 1 ? m.m : 1; if (!cnt || !seen.insert((result ? "r" : "i") + s.name + std::to_string(s.kind & 3)).second) continue;
      for (int i = 0; i < cnt; ++i) s.vals.push_back(R(0, 2) ? 0.0 : ((s.kind & 4) ? gd() : (double)R(-3, 9)));
      out.push_back(s);
    }
  };
  gen_sufs(m.sufs, false); gen_sufs(m.sol_sufs, true);
  m.names = R(0, 2); m.text = R(0, 2); m.comments = R(0, 2);
  if (R(0, 5)) for (int j = 0; j < m.n; ++j) m.sol_x.push_back(gd());
  if (R(0, 3)) for (int i = 0; i < m.m; ++i) m.sol_y.push_back(gd());
  m.solve_code = *rc::gen::elementOf(std::vector<int>{0, 0, 100, 200, 300, 400, 500, 2});
  return m;
}

// ---------------------------------------------------------------- case files
static void putv(std::ostream& o, const std::vector<double>& v) { o << v.size(); for (double d : v) o << " " << dstr(d); o << "\n"; }
static std::vector<double> getv(std::istream& i) { size_t n; i >> n; std::vector<double> v(n); for (auto& d : v) { std::string t; i >> t; d = strtod(t.c_str(), 0); } return v; }
static void pute(std::ostream& o, const std::vector<Ent>& v) { o << v.size(); for (auto& e : v) o << " " << e.r << " " << e.c << " " << dstr(e.v); o << "\n"; }
static std::vector<Ent> gete(std::istream& i) { size_t n; i >> n; std::vector<Ent> v(n); for (auto& e : v) { std::string t; i >> e.r >> e.c >> t; e.v = strtod(t.c_str(), 0); } return v; }
static void puts_(std::ostream& o, const std::vector<ESuf>& v) { o << v.size() << "\n"; for (auto& s : v) { o << s.name << " " << s.kind << " "; putv(o, s.vals); } }
static std::vector<ESuf> gets_(std::istream& i) { size_t n; i >> n; std::vector<ESuf> v(n); for (auto& s : v) { i >> s.name >> s.kind; s.vals = getv(i); } return v; }
static void esave(const EModel& m, const std::string& path) {
  std::ofstream o(path);
  o << m.n << " " << m.have_types << " " << m.m << " " << m.sense << " " << dstr(m.c0) << " " << m.have_c << " " << m.qformat << " " << m.names << " " << m.text << " " << m.comments << " " << m.solve_code << "\n";
  putv(o, m.lb); putv(o, m.ub); putv(o, std::vector<double>(m.type.begin(), m.type.end())); putv(o, m.rlb); putv(o, m.rub); pute(o, m.A); putv(o, m.c); pute(o, m.Q);
  { std::vector<Ent> t; for (auto& p : m.ini_x) t.push_back({p.first, 0, p.second}); pute(o, t); t.clear(); for (auto& p : m.ini_y) t.push_back({p.first, 0, p.second}); pute(o, t); }
  puts_(o, m.sufs); puts_(o, m.sol_sufs); putv(o, m.sol_x); putv(o, m.sol_y);
}
static EModel eload(const std::string& path) {
  std::ifstream i(path); EModel m; std::string t;
  i >> m.n >> m.have_types >> m.m >> m.sense >> t >> m.have_c >> m.qformat >> m.names >> m.text >> m.comments >> m.solve_code; m.c0 = strtod(t.c_str(), 0);
  m.lb = getv(i); m.ub = getv(i); { auto v = getv(i); m.type.assign(v.begin(), v.end()); } m.rlb = getv(i); m.rub = getv(i); m.A = gete(i); m.c = getv(i); m.Q = gete(i);
  for (auto& e : gete(i)) m.ini_x.push_back({e.r, e.v}); for (auto& e : gete(i)) m.ini_y.push_back({e.r, e.v});
  m.sufs = gets_(i); m.sol_sufs = gets_(i); m.sol_x = getv(i); m.sol_y = getv(i);
  return m;
}

int main(int argc, char** argv) {
  std::string mode = argc > 1 ? argv[1] : "rc";
  char tmpl[] = "/var/tmp/easyXXXXXX"; if (!mkdtemp(tmpl)) return 2; g_dir = tmpl;
  auto cleanup = [&]() { for (const char* s : {"/e", "/e2"}) for (const char* ext : {".nl", ".col", ".row", ".sol"}) unlink((g_dir + s + ext).c_str()); rmdir(g_dir.c_str()); };
  if (mode == "replay" && argc > 2) {
    EModel m = eload(argv[2]); std::string r = check(m); cleanup();
    if (!r.empty()) { printf("FAIL %s\n", r.c_str()); return 1; }
    printf("OK\n"); return 0;
  }
  unsigned long cases = 0, nontrivial = 0; std::set<size_t> distinct; std::map<std::string, unsigned long> lab; std::vector<std::string> samples; std::string last_fail;
  const char* failp = getenv("EASY_FAIL");
  bool skip_nlvars = getenv("EASY_SKIP_NLVARS") != nullptr; unsigned long skipped_known = 0;
  bool ok = rc::check("easy API round trip", [&]() {
    EModel m = gen_em();
    if (skip_nlvars && !m.Q.empty()) { ++skipped_known; return; }
    ++cases;
    std::string r = check(m);
    int nint = 0; for (int t : m.type) nint += t != 0;
    bool offdiag = false, dup = false; std::set<std::pair<int, int>> seen; for (auto& e : m.Q) { offdiag |= e.r != e.c; dup |= !seen.insert({e.r, e.c}).second; }
    lab["with-hessian"] += !m.Q.empty(); lab["hessian-offdiag"] += offdiag; lab["hessian-duplicates"] += dup; lab["with-integers"] += nint > 0; lab["format-triangular"] += m.qformat == 1 && !m.Q.empty();
    lab["text"] += m.text; lab["with-suffixes"] += !m.sufs.empty(); lab["with-returned-suffixes"] += !m.sol_sufs.empty(); lab["with-solution"] += !m.sol_x.empty(); lab["no-linear-part"] += !m.have_c;
    bool nt = nint > 0 && nint < m.n && m.m > 0 && (!m.Q.empty() || !m.sufs.empty()) && !m.sol_x.empty();
    if (nt) { ++nontrivial; std::ostringstream k; k << m.n << m.m << m.Q.size() << m.A.size() << m.sense << dstr(m.c0) << m.sol_x.size() << (m.A.empty() ? 0.0 : m.A[0].v); for (int t : m.type) k << t; distinct.insert(std::hash<std::string>()(k.str())); }
    if (samples.size() < 3 && nt) samples.push_back("cols=" + std::to_string(m.n) + " ints=" + std::to_string(nint) + " rows=" + std::to_string(m.m) + " nzA=" + std::to_string(m.A.size()) + " nzQ=" + std::to_string(m.Q.size()) + " format=" + std::to_string(m.qformat) + " suffixes=" + std::to_string(m.sufs.size()) + (m.text ? " text" : " binary"));
    if (!r.empty()) { last_fail = r; if (failp) esave(m, failp); }
    RC_ASSERT(r.empty());
  });
  cleanup();
  printf("{\"ok\":%s,\"cases\":%lu,\"nontrivial\":%lu,\"distinct_nontrivial\":%zu,\"skipped_known\":%lu,\"labels\":{", ok ? "true" : "false", cases, nontrivial, distinct.size(), skipped_known);
  bool first = true; for (auto& kv : lab) { printf("%s\"%s\":%lu", first ? "" : ",", kv.first.c_str(), kv.second); first = false; }
  printf("},\"fail\":\"");
  for (char ch : last_fail) { if (ch == '"' || ch == '\\') printf("\\%c", ch); else if ((unsigned char)ch < 32 || (unsigned char)ch > 126) printf("?"); else putchar(ch); }
  printf("\",\"samples\":[");
  for (size_t i = 0; i < samples.size(); ++i) printf("%s\"%s\"", i ? "," : "", samples[i].c_str());
  printf("]}\n");
  return 0;
}
