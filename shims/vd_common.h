#ifndef VD_COMMON_H
#define VD_COMMON_H
// vdriver: the real mp pipeline (NLReader -> Problem -> ProblemFlattener -> MIPFlatConverter -> ModelAPI,
// StdBackend/MIPBackend/FlatBackend result reporting, value postsolve, solution check, SOL writer)
// with a *recording* ModelAPI that can accept every flat constraint type and a *scripted* solver.
//
//   VDRIVER_CFG  = path of a line-oriented script (see LoadCfg)
//   VDRIVER_DUMP = path of the JSON dump of everything the ModelAPI / backend received
//
// The dump uses its own serialisers (numbers as C99 hex-float strings); it does not use MiniJSONWriter.
#include <cstdio>
#include <cstdlib>
#include <cstring>
#include <cmath>
#include <fstream>
#include <sstream>
#include <iostream>
#include <map>
#include <vector>
#include <string>

#include "mp/backend-to-model-api.h"
#include "mp/env.h"
#include "mp/flat/model_api_base.h"
#include "mp/flat/constr_std.h"
#include "mp/valcvt-base.h"
#include "mp/model-mgr-base.h"

// ---------------------------------------------------------------- script
namespace vd {

struct VecSpec {             // explicit vector, or affine formula relative to the natural length
  bool given = false;
  bool formula = false;
  double a = 0, b = 0; int len_delta = 0; long len_abs = -1;
  std::vector<double> v;
  std::vector<double> cyc;     // "cycle": repeat this pattern over the natural length (+ len_delta)
  std::vector<double> make(size_t natural) const {
    if (!cyc.empty()) {
      long n = (long)natural + len_delta; if (n < 0) n = 0;
      std::vector<double> r((size_t)n);
      for (long i = 0; i < n; ++i) r[i] = cyc[i % cyc.size()];
      return r;
    }
    if (!formula) return v;
    long n = len_abs >= 0 ? len_abs : (long)natural + len_delta;
    if (n < 0) n = 0;
    std::vector<double> r((size_t)n);
    for (long i = 0; i < n; ++i) r[i] = a + b * i;
    return r;
  }
};

struct Op {                  // one direct value-presolver call (C04 histories)
  std::string kind;          // PresolveSolution, PostsolveSolution, PresolveBasis, ...
  VecSpec vars, objs;
  std::map<int, VecSpec> cons;   // key: group (postsolve) or 0 (presolve: original cons)
};

struct Cfg {
  std::map<std::string, int> acc;      // short type name -> level
  int acc_default = 2;
  int quadobj = 2;
  int nonconvexqc = 1, mix_conic = 1, socp_corner = 1;
  int status = 0; std::string status_text = "scripted status";
  VecSpec primal, objvals, basis_var, iis_var, ray, dray;
  std::map<int, VecSpec> dual, basis_con, iis_con;
  bool has_primal = false, has_dual = false, has_obj = false, has_basis = false, has_iis = false;
  bool is_mip_override = false; int is_mip = 0;
  std::vector<Op> ops;
  std::string dump;
  int solve_throw = 0;       // 1: std::runtime_error from Solve(), 2: mp::Error with code, 3: StdBackend::Abort(status, status_text)
  int n_interm = 0;          // number of intermediate solutions to report
};

extern Cfg g_cfg;

inline bool ReadVec(std::istringstream& is, VecSpec& vs) {
  std::string tok; if (!(is >> tok)) return false;
  vs.given = true;
  if (tok == "affine") {       // affine a b (delta d | len n)
    vs.formula = true; std::string sa, sb, mode; long k;
    is >> sa >> sb >> mode >> k;
    vs.a = strtod(sa.c_str(), 0); vs.b = strtod(sb.c_str(), 0);
    if (mode == "len") vs.len_abs = k; else vs.len_delta = (int)k;
    return true;
  }
  if (tok == "cycle") {        // cycle k v1..vk delta d
    long k; is >> k;
    for (long i = 0; i < k; ++i) { std::string sv; is >> sv; vs.cyc.push_back(strtod(sv.c_str(), 0)); }
    std::string mode; long d = 0; is >> mode >> d; vs.len_delta = (int)d;
    return true;
  }
  long n = atol(tok.c_str());
  for (long i = 0; i < n; ++i) { std::string s; if (!(is >> s)) return false; vs.v.push_back(strtod(s.c_str(), 0)); }
  return true;
}

inline void LoadCfg() {
  const char* d = getenv("VDRIVER_DUMP"); if (d) g_cfg.dump = d;
  const char* p = getenv("VDRIVER_CFG"); if (!p) return;
  std::ifstream f(p); std::string line;
  while (std::getline(f, line)) {
    std::istringstream is(line); std::string key; if (!(is >> key) || key[0] == '#') continue;
    if (key == "acc") { std::string t; int l; is >> t >> l; g_cfg.acc[t] = l; }
    else if (key == "acc_default") is >> g_cfg.acc_default;
    else if (key == "quadobj") is >> g_cfg.quadobj;
    else if (key == "nonconvexqc") is >> g_cfg.nonconvexqc;
    else if (key == "mix_conic") is >> g_cfg.mix_conic;
    else if (key == "socp_corner") is >> g_cfg.socp_corner;
    else if (key == "status") { is >> g_cfg.status; std::getline(is, g_cfg.status_text);
      while (!g_cfg.status_text.empty() && g_cfg.status_text[0] == ' ') g_cfg.status_text.erase(0, 1); }
    else if (key == "primal") { ReadVec(is, g_cfg.primal); g_cfg.has_primal = true; }
    else if (key == "objvals") { ReadVec(is, g_cfg.objvals); g_cfg.has_obj = true; }
    else if (key == "dual") { int g; is >> g; ReadVec(is, g_cfg.dual[g]); g_cfg.has_dual = true; }
    else if (key == "basis_var") { ReadVec(is, g_cfg.basis_var); g_cfg.has_basis = true; }
    else if (key == "basis_con") { int g; is >> g; ReadVec(is, g_cfg.basis_con[g]); g_cfg.has_basis = true; }
    else if (key == "iis_var") { ReadVec(is, g_cfg.iis_var); g_cfg.has_iis = true; }
    else if (key == "iis_con") { int g; is >> g; ReadVec(is, g_cfg.iis_con[g]); g_cfg.has_iis = true; }
    else if (key == "ray") ReadVec(is, g_cfg.ray);
    else if (key == "dray") ReadVec(is, g_cfg.dray);
    else if (key == "is_mip") { g_cfg.is_mip_override = true; is >> g_cfg.is_mip; }
    else if (key == "solve_throw") is >> g_cfg.solve_throw;
    else if (key == "interm") is >> g_cfg.n_interm;
    else if (key == "op") {
      Op op; is >> op.kind; std::string part;
      while (is >> part) {
        if (part == "vars") ReadVec(is, op.vars);
        else if (part == "objs") ReadVec(is, op.objs);
        else if (part == "cons") { int g; is >> g; ReadVec(is, op.cons[g]); }
      }
      g_cfg.ops.push_back(op);
    }
  }
}

// ---------------------------------------------------------------- dump helpers
inline std::string Hex(double v) {
  char b[64];
  if (std::isnan(v)) return "\"nan\"";
  if (std::isinf(v)) return v > 0 ? "\"inf\"" : "\"-inf\"";
  snprintf(b, sizeof b, "\"%a\"", v); return b;
}
inline std::string Esc(const char* s) {
  std::string r = "\""; if (!s) s = "";
  for (; *s; ++s) {
    unsigned char c = (unsigned char)*s;
    if (c == '"' || c == '\\') { r += '\\'; r += (char)c; }
    else if (c < 0x20) { char b[8]; snprintf(b, sizeof b, "\\u%04x", c); r += b; }
    else r += (char)c;
  }
  return r + "\"";
}
template <class V> inline std::string IVec(const V& v) {
  std::string r = "["; bool f = true;
  for (auto x : v) { if (!f) r += ","; f = false; r += std::to_string((long)x); }
  return r + "]";
}
template <class V> inline std::string DVec(const V& v) {
  std::string r = "["; bool f = true;
  for (auto x : v) { if (!f) r += ","; f = false; r += Hex((double)x); }
  return r + "]";
}
template <class P> inline std::string DArr(const P* p, size_t n) {
  std::string r = "["; for (size_t i = 0; i < n; ++i) { if (i) r += ","; r += Hex((double)p[i]); } return r + "]";
}
template <class P> inline std::string IArr(const P* p, size_t n) {
  std::string r = "["; for (size_t i = 0; i < n; ++i) { if (i) r += ","; r += std::to_string((long)p[i]); } return r + "]";
}

struct Dump {
  std::vector<std::string> events;     // JSON objects in call order
  std::map<int, int> group_count;      // constraints per group
  int nvars = 0, nobjs = 0, nint = 0;
  bool quad = false;
  void add(std::string s) { events.push_back(std::move(s)); }
  void flush(const char* phase) {
    if (g_cfg.dump.empty()) return;
    std::ofstream f(g_cfg.dump);
    f << "{\"phase\":" << Esc(phase) << ",\n\"events\":[\n";
    for (size_t i = 0; i < events.size(); ++i) f << (i ? ",\n" : "") << events[i];
    f << "\n]}\n";
  }
};
extern Dump g_dump;

}  // namespace vd

// ---------------------------------------------------------------- type names and serialisers
namespace mp {

template <class C> struct VShort { static std::string get() { return C::GetTypeName(); } };
template <class B> struct VBodyName;
template <> struct VBodyName<LinTerms> { static const char* get() { return "Lin"; } };
template <> struct VBodyName<QuadAndLinTerms> { static const char* get() { return "Quad"; } };
template <class B> struct VShort< AlgebraicConstraint<B, AlgConRange> > {
  static std::string get() { return std::string(VBodyName<B>::get()) + "ConRange"; } };
template <class B, int k> struct VShort< AlgebraicConstraint<B, AlgConRhs<k> > > {
  static std::string get() { return std::string(VBodyName<B>::get()) + "Con" + AlgConRhs<k>::GetCmpName(); } };
template <class C> struct VShort< IndicatorConstraint<C> > {
  static std::string get() { return "Indicator" + VShort<C>::get(); } };
template <class C> struct VShort< ConditionalConstraint<C> > {
  static std::string get() { return "Cond" + VShort<C>::get(); } };
template <> struct VShort< ComplementarityLinear > { static std::string get() { return "ComplementarityLinear"; } };
template <> struct VShort< ComplementarityQuadratic > { static std::string get() { return "ComplementarityQuadratic"; } };

inline std::string JLin(const LinTerms& lt) {
  return "\"coefs\":" + vd::DVec(lt.coefs()) + ",\"vars\":" + vd::IVec(lt.vars());
}
inline std::string JQuad(const QuadTerms& qt) {
  return "\"qcoefs\":" + vd::DVec(qt.coefs()) + ",\"qvars1\":" + vd::IVec(qt.vars1()) + ",\"qvars2\":" + vd::IVec(qt.vars2());
}
inline std::string JBody(const LinTerms& b) { return JLin(b); }
inline std::string JBody(const QuadAndLinTerms& b) { return JLin(b.GetLinTerms()) + "," + JQuad(b.GetQPTerms()); }
inline std::string JExpr(const AffineExpr& e) { return JLin(e.GetLinTerms()) + ",\"const\":" + vd::Hex(e.constant_term()); }
inline std::string JExpr(const QuadraticExpr& e) {
  return JLin(e.GetLinTerms()) + "," + JQuad(e.GetQPTerms()) + ",\"const\":" + vd::Hex(e.constant_term()); }

template <class B, class R> inline std::string JCon(const AlgebraicConstraint<B, R>& c) {
  return "\"kind\":\"alg\"," + JBody(c.GetBody()) + ",\"lb\":" + vd::Hex(c.lb()) + ",\"ub\":" + vd::Hex(c.ub()) +
         ",\"cmp\":" + std::to_string(c.kind());
}
template <class C> inline std::string JCon(const IndicatorConstraint<C>& c) {
  return "\"kind\":\"indicator\",\"bin_var\":" + std::to_string(c.get_binary_var()) + ",\"bin_val\":" +
         std::to_string(c.get_binary_value()) + ",\"con\":{\"type\":" + vd::Esc(VShort<C>::get().c_str()) + "," +
         JCon(c.get_constraint()) + "}";
}
template <int t> inline std::string JCon(const SOS_1or2_Constraint<t>& c) {
  auto b = c.get_sum_of_vars_range();
  return "\"kind\":\"sos\",\"sos_type\":" + std::to_string(t) + ",\"vars\":" + vd::IVec(c.get_vars()) + ",\"weights\":" +
         vd::DVec(c.get_weights()) + ",\"sum_lb\":" + vd::Hex(b.lb_) + ",\"sum_ub\":" + vd::Hex(b.ub_);
}
template <class E> inline std::string JCon(const ComplementarityConstraint<E>& c) {
  return "\"kind\":\"compl\",\"compl_var\":" + std::to_string(c.GetVariable()) + ",\"expr\":{" + JExpr(c.GetExpression()) + "}";
}
inline std::string JParams(const ParamArray0&) { return "[]"; }
template <size_t N> inline std::string JParams(const ParamArrayN<double, N>& p) { return vd::DVec(p); }
inline std::string JParams(const DblParamArray& p) { return vd::DVec(p); }
inline std::string JParams(const PLConParams& p) {
  const auto& pts = p.GetPLPoints();
  return "{\"pl_x\":" + vd::DVec(pts.x_) + ",\"pl_y\":" + vd::DVec(pts.y_) + "}";
}
template <class A, class P, class N, class I>
inline std::string JCon(const CustomFunctionalConstraint<A, P, N, I>& c) {
  return "\"kind\":\"func\",\"res_var\":" + std::to_string(c.GetResultVar()) + ",\"args\":" + vd::IVec(c.GetArguments()) +
         ",\"params\":" + JParams(c.GetParameters()) + ",\"ctx\":" + std::to_string((int)c.GetContext().GetValue());
}
template <class C> inline std::string JCon(const ConditionalConstraint<C>& c) {
  return "\"kind\":\"cond\",\"res_var\":" + std::to_string(c.GetResultVar()) + ",\"ctx\":" +
         std::to_string((int)c.GetContext().GetValue()) + ",\"con\":{\"type\":" + vd::Esc(VShort<C>::get().c_str()) + "," +
         JCon(c.GetConstraint()) + "}";
}
inline std::string JCon(const LinearFunctionalConstraint& c) {
  return "\"kind\":\"linfunc\",\"res_var\":" + std::to_string(c.GetResultVar()) + ",\"ctx\":" +
         std::to_string((int)c.GetContext().GetValue()) + ",\"expr\":{" + JExpr(c.GetAffineExpr()) + "}";
}
inline std::string JCon(const QuadraticFunctionalConstraint& c) {
  return "\"kind\":\"quadfunc\",\"res_var\":" + std::to_string(c.GetResultVar()) + ",\"ctx\":" +
         std::to_string((int)c.GetContext().GetValue()) + ",\"expr\":{" + JExpr(c.GetQuadExpr()) + "}";
}

// ---------------------------------------------------------------- common info / ModelAPI
struct VCommonInfo { int dummy_ = 0; };

class VCommon : public Backend2ModelAPIConnector<VCommonInfo> {
public:
  static constexpr double Infinity() { return INFINITY; }
  static constexpr double MinusInfinity() { return -INFINITY; }
};

inline int CfgLevel(const std::string& name) {
  auto it = vd::g_cfg.acc.find(name);
  return it == vd::g_cfg.acc.end() ? vd::g_cfg.acc_default : it->second;
}

template <class C> struct VGroup { static int get() { return CG_General; } };
template <class R> struct VGroup< AlgebraicConstraint<LinTerms, R> > { static int get() { return CG_Linear; } };
template <class R> struct VGroup< AlgebraicConstraint<QuadAndLinTerms, R> > { static int get() { return CG_Quadratic; } };
template <int t> struct VGroup< SOS_1or2_Constraint<t> > { static int get() { return CG_SOS; } };
template <> struct VGroup< QuadraticConeConstraint > { static int get() { return CG_Conic; } };
template <> struct VGroup< RotatedQuadraticConeConstraint > { static int get() { return CG_Conic; } };
template <> struct VGroup< ExponentialConeConstraint > { static int get() { return CG_Conic; } };
template <> struct VGroup< PowerConeConstraint > { static int get() { return CG_Conic; } };
template <> struct VGroup< GeometricConeConstraint > { static int get() { return CG_Conic; } };

class RecModelAPI : public VCommon, public EnvKeeper, public BasicFlatModelAPI {
public:
  RecModelAPI(Env& e) : EnvKeeper(e) {}
  static const char* GetTypeName() { return "RecModelAPI"; }
  void InitCustomOptions() {}
  void InitProblemModificationPhase(const FlatModelInfo*) { vd::g_dump.add("{\"ev\":\"begin\"}"); }
  void FinishProblemModificationPhase() { vd::g_dump.add("{\"ev\":\"end\"}"); vd::g_dump.flush("model"); }

  void AddVariables(const VarArrayDef& v) {
    int n = v.size();
    std::string s = "{\"ev\":\"vars\",\"n\":" + std::to_string(n) + ",\"lb\":" + vd::DArr(v.plb(), n) + ",\"ub\":" +
                    vd::DArr(v.pub(), n) + ",\"type\":" + vd::IArr(v.ptype(), n) + ",\"names\":";
    if (v.pnames()) {
      s += "[";
      for (int i = 0; i < n; ++i) { if (i) s += ","; s += vd::Esc(v.pnames()[i]); }
      s += "]";
    } else s += "null";
    vd::g_dump.add(s + "}");
    vd::g_dump.nvars = n; vd::g_dump.nint = 0;
    for (int i = 0; i < n; ++i) if (v.ptype()[i] == var::Type::INTEGER && v.plb()[i] < v.pub()[i]) ++vd::g_dump.nint;
  }
  void SetLinearObjective(int iobj, const LinearObjective& lo) {
    vd::g_dump.add("{\"ev\":\"obj\",\"i\":" + std::to_string(iobj) + ",\"sense\":" + std::to_string((int)lo.obj_sense()) +
                   ",\"name\":" + vd::Esc(lo.name()) + "," + JLin(lo.GetLinTerms()) + "}");
    if (iobj + 1 > vd::g_dump.nobjs) vd::g_dump.nobjs = iobj + 1;
  }
  static int AcceptsQuadObj() { return vd::g_cfg.quadobj; }
  void SetQuadraticObjective(int iobj, const QuadraticObjective& qo) {
    vd::g_dump.add("{\"ev\":\"obj\",\"i\":" + std::to_string(iobj) + ",\"sense\":" + std::to_string((int)qo.obj_sense()) +
                   ",\"name\":" + vd::Esc(qo.name()) + "," + JLin(qo.GetLinTerms()) + "," + JQuad(qo.GetQPTerms()) + "}");
    if (iobj + 1 > vd::g_dump.nobjs) vd::g_dump.nobjs = iobj + 1;
    vd::g_dump.quad = true;
  }
  static bool AcceptsNonconvexQC() { return vd::g_cfg.nonconvexqc != 0; }
  static bool CanMixConicQCAndQC() { return vd::g_cfg.mix_conic != 0; }
  static bool CanSOCPCornerCasesFromQC() { return vd::g_cfg.socp_corner != 0; }

  // catch-all: every flat constraint type; acceptance from the script table
  template <class C> static ConstraintAcceptanceLevel AcceptanceLevel(const C*) {
    return (ConstraintAcceptanceLevel)CfgLevel(VShort<C>::get());
  }
  template <class C> static int GroupNumber(const C*) { return VGroup<C>::get(); }
  template <class C> void AddConstraint(const C& c) {
    int g = VGroup<C>::get();
    int idx = vd::g_dump.group_count[g]++;
    vd::g_dump.add("{\"ev\":\"con\",\"type\":" + vd::Esc(VShort<C>::get().c_str()) + ",\"group\":" + std::to_string(g) +
                   ",\"gindex\":" + std::to_string(idx) + ",\"name\":" + vd::Esc(c.name()) + "," + JCon(c) + "}");
  }
};


std::unique_ptr<BasicModelManager> CreateVModelMgr(VCommon& cc, Env& e, pre::BasicValuePresolver*& pPre);
}  // namespace mp
#endif
