// C15: an interrupt is never lost and never delivered with inconsistent state.
// Built with -DMP_VERIF_HOOKS (Makefile flavour "hooks"): src/solver.cc then calls mp_verif_sigpoint(name) at named points of
// SignalHandler's constructor, destructor and SetHandler; this harness raises a signal exactly there. The schedule is owned by
// the harness, so every run is deterministic.
//   sig_shim <scenario-file>     (or "-" for stdin; scenarios separated by a line "end"; one result block per scenario)
// Scenario lines:
//   sig <point> <occurrence> <int|term>     raise the signal at the <occurrence>-th time the named point is reached
//   construct | reg <k> | query | destroy   steps, executed in order (k = 0..2 selects callback k with its own data k)
// Harness points: "step:<i>" before step i, "final" after the last step.
// Output per scenario: the event log of the child (P point / S signal / C func data / Q result / X step) and "EXIT <how> <code>", then "--".
#include <csignal>
#include <cstdio>
#include <cstdlib>
#include <cstring>
#include <iostream>
#include <fstream>
#include <sstream>
#include <string>
#include <vector>
#include <unistd.h>
#include <sys/wait.h>

#include "mp/solver-base.h"
#include "mp/solver-app-base.h"

extern "C" void (*mp_verif_sigpoint)(const char*);

namespace {
int g_log = -1;
void logw(const char* a, const char* b = "", const char* c = "") {      // async-signal-safe
  char buf[160]; size_t n = 0;
  for (const char* s : {a, " ", b, " ", c, "\n"}) for (; *s && n < sizeof buf - 1; ++s) buf[n++] = *s;
  (void)!write(g_log, buf, n);
}
struct Sig { std::string point; int occ; int signo; bool done = false; };
std::vector<Sig> g_sigs;
struct Cnt { std::string name; int n; };
std::vector<Cnt> g_counts;
int g_data[3] = {100, 101, 102};

void at_point(const char* name) {
  logw("P", name);
  int n = 0; bool found = false;
  for (auto& c : g_counts) if (c.name == name) { n = ++c.n; found = true; }
  if (!found) { g_counts.push_back({name, 1}); n = 1; }
  for (auto& s : g_sigs) if (!s.done && s.point == name && s.occ == n) { s.done = true; logw("S", s.signo == SIGINT ? "int" : "term"); raise(s.signo); }
}
template <int K> bool cb(void* d) {
  const char* f = K == 0 ? "0" : K == 1 ? "1" : "2";
  const char* dd = d == &g_data[0] ? "0" : d == &g_data[1] ? "1" : d == &g_data[2] ? "2" : d == nullptr ? "null" : "other";
  logw("C", f, dd);
  return true;
}
mp::InterruptHandler kCbs[3] = {cb<0>, cb<1>, cb<2>};

class Solver : public mp::BasicSolver { public: Solver() : mp::BasicSolver("sigtest", "sig test", 20240101, 0) {} };

void child(const std::vector<std::string>& steps) {
  g_counts.reserve(64);
  for (auto& s : g_sigs) { g_counts.push_back({s.point, 0}); }
  for (const char* p : {"ctor:before-install", "ctor:sigint-installed", "ctor:sigterm-installed", "ctor:done", "dtor:begin", "dtor:interrupter-reset", "dtor:stop-set",
                        "dtor:handler-reset", "dtor:done", "sethandler:begin", "sethandler:handler-stored", "sethandler:done", "final"}) g_counts.push_back({p, 0});
  for (size_t i = 0; i < steps.size(); ++i) g_counts.push_back({"step:" + std::to_string(i), 0});
  // merge duplicates
  { std::vector<Cnt> u; for (auto& c : g_counts) { bool f = false; for (auto& x : u) f |= x.name == c.name; if (!f) u.push_back({c.name, 0}); } g_counts = u; }
  mp_verif_sigpoint = at_point;
  Solver solver;
  mp::internal::SignalHandler* sh = nullptr;
  for (size_t i = 0; i < steps.size(); ++i) {
    std::string pt = "step:" + std::to_string(i);
    at_point(pt.c_str());
    logw("X", steps[i].c_str());
    std::istringstream is(steps[i]); std::string op; int k = 0; is >> op >> k;
    if (op == "construct" && !sh) sh = new mp::internal::SignalHandler(solver);
    else if (op == "reg" && sh) sh->SetHandler(kCbs[k % 3], &g_data[k % 3]);
    else if (op == "query" && sh) logw("Q", sh->Stop() ? "1" : "0");
    else if (op == "destroy" && sh) { delete sh; sh = nullptr; }
  }
  at_point("final");
  logw("X", "finished");
  _exit(0);
}
}  // namespace

static void run_scenario(std::istream& in) {
  std::vector<std::string> steps; std::string line;
  g_sigs.clear();
  bool any = false;
  while (std::getline(in, line)) {
    if (line == "end") break;
    if (line.empty()) continue;
    any = true;
    std::istringstream is(line); std::string k; is >> k;
    if (k == "sig") { Sig s; std::string sn; is >> s.point >> s.occ >> sn; s.signo = sn == "term" ? SIGTERM : SIGINT; g_sigs.push_back(s); }
    else steps.push_back(line);
  }
  if (!any) return;
  int lp[2], op[2];
  if (pipe(lp) || pipe(op)) { printf("EXIT harness pipe\n--\n"); return; }
  fflush(stdout);
  pid_t pid = fork();
  if (pid == 0) {
    close(lp[0]); close(op[0]); g_log = lp[1];
    dup2(op[1], 1);                       // the '<BREAK>' text goes to the second pipe
    alarm(20);
    child(steps);
    _exit(0);
  }
  close(lp[1]); close(op[1]);
  std::string log, out; char buf[4096]; ssize_t n;
  while ((n = read(lp[0], buf, sizeof buf)) > 0) log.append(buf, n);
  while ((n = read(op[0], buf, sizeof buf)) > 0) out.append(buf, n);
  close(lp[0]); close(op[0]);
  int st = 0; waitpid(pid, &st, 0);
  fputs(log.c_str(), stdout);
  size_t breaks = 0; for (size_t p = out.find("<BREAK>"); p != std::string::npos; p = out.find("<BREAK>", p + 1)) ++breaks;
  printf("B %zu\n", breaks);
  if (WIFEXITED(st)) printf("EXIT exited %d\n", WEXITSTATUS(st)); else if (WIFSIGNALED(st)) printf("EXIT signaled %d\n", WTERMSIG(st)); else printf("EXIT other 0\n");
  printf("--\n");
  fflush(stdout);
}

int main(int argc, char** argv) {
  if (argc < 2) return 2;
  if (std::string(argv[1]) == "-") { while (std::cin.peek() != EOF) run_scenario(std::cin); return 0; }
  std::ifstream f(argv[1]);
  while (f.peek() != EOF) run_scenario(f);
  return 0;
}
