// C16: GSL bindings return consistent derivatives or an explicit error.
// The shim compiles src/gsl/amplgsl.cc itself (against a stand-in funcadd.h), registers all functions through
// funcadd_ASL and calls them as an ASL evaluator would. rapidcheck generates (function, argument vector, request mode).
//   gsl_shim rc             RC_PARAMS from env; prints a JSON summary line
//   gsl_shim replay <file>  "name mode digmask nargs a0 a1 ..." (hex floats)
//   gsl_shim list           registered functions with arity, kind and detected integer arguments
#include <cmath>
#include <csignal>
#include <cstdio>
#include <cstdlib>
#include <cstring>
#include <fstream>
#include <functional>
#include <map>
#include <set>
#include <sstream>
#include <string>
#include <vector>
#include <unistd.h>

#include "asl_stub/funcadd.h"
#include "gsl/amplgsl.cc"      // static binding functions + funcadd_ASL ($(REPO)/src is on the include path)
#include <rapidcheck.h>

struct FInfo { std::string name; rfunc f; int type; int nargs; void* info; std::vector<bool> is_int; };
static std::vector<FInfo> g_funcs;
static std::vector<std::vector<char>> g_temp;      // Tempmem allocations of the current call
static std::vector<std::pair<Exitfunc, void*>> g_reset;

static void add_func(const char* name, rfunc f, int type, int nargs, void* funcinfo, AmplExports*) { g_funcs.push_back({name, f, type, nargs, funcinfo, {}}); }
static void* temp_mem(TMInfo*, size_t n) { g_temp.emplace_back(n + 1); return g_temp.back().data(); }
static void at_reset_fn(AmplExports*, Exitfunc f, void* v) { g_reset.push_back({f, v}); }
static AmplExports g_ae;

struct Call {
  double value = 0; std::vector<double> derivs, hes; std::string err; bool has_err = false;
};
enum { M_VALUE = 0, M_DERIV = 1, M_HES = 2 };
static const double SENTINEL = 0x1.23456789abcdep+77;

// A binding call that does not come back is cut off by SIGALRM + siglongjmp (GSL holds no locks; the call's temporaries leak).
#include <csetjmp>
#include <sys/time.h>
static sigjmp_buf g_jmp; static volatile sig_atomic_t g_in_call = 0;
struct Hang { std::string what; };
static int g_call_limit = 5;       // seconds; normal calls take microseconds
static void on_call_alarm(int) { if (g_in_call) siglongjmp(g_jmp, 1); const char m[] = "GSL-TIMEOUT\n"; (void)!write(2, m, sizeof m - 1); _exit(42); }
static std::string show_args(const std::vector<double>& a);

static Call call(const FInfo& fi, const std::vector<double>& args, int mode, const std::vector<char>& dig) {
  Call c; arglist al; std::memset(&al, 0, sizeof al);
  std::vector<double> ra = args; std::vector<char> d = dig;
  int n = (int)args.size();
  al.n = al.nr = n; al.ra = n ? ra.data() : nullptr; al.AE = &g_ae; al.TMI = nullptr; al.funcinfo = fi.info;
  al.dig = (!d.empty() && mode != M_VALUE) ? d.data() : nullptr;
  // output slots the binding must fill start as a sentinel number (so that a slot left unwritten is visible - a NaN would be turned
  // into an error by the bindings' own NaN scan, which a real work array holding old numbers does not trigger); slots that belong
  // to an argument marked constant start as 0
  auto constant = [&](int i) { return al.dig && al.dig[i]; };
  if (mode >= M_DERIV) { c.derivs.assign(n ? n : 1, SENTINEL); for (int i = 0; i < n; ++i) if (constant(i)) c.derivs[i] = 0; al.derivs = c.derivs.data(); }
  if (mode >= M_HES) {
    c.hes.assign(n ? n * (n + 1) / 2 : 1, SENTINEL);
    for (int i = 0; i < n; ++i) for (int j = i; j < n; ++j) if (constant(i) || constant(j)) c.hes[i * (2 * n - i - 1) / 2 + j] = 0;
    al.hes = c.hes.data();
  }
  g_temp.clear();
  if (sigsetjmp(g_jmp, 1)) {
    g_in_call = 0;
    throw Hang{fi.name + show_args(args) + (mode == M_VALUE ? "" : mode == M_DERIV ? " [derivs]" : " [derivs+hes]")};
  }
  struct itimerval tv = {{0, 0}, {g_call_limit, 0}}, off = {{0, 0}, {0, 0}};
  g_in_call = 1; setitimer(ITIMER_REAL, &tv, nullptr);
  c.value = fi.f(&al);
  setitimer(ITIMER_REAL, &off, nullptr); g_in_call = 0;
  if (al.Errmsg) { c.has_err = true; c.err = al.Errmsg; }
  return c;
}

static std::string dstr(double d) { char b[64]; if (std::isnan(d)) return "nan"; if (std::isinf(d)) return d > 0 ? "inf" : "-inf"; snprintf(b, sizeof b, "%a", d); return b; }
static std::string show_args(const std::vector<double>& a) { std::string s = "("; char b[40]; for (size_t i = 0; i < a.size(); ++i) { snprintf(b, sizeof b, "%s%.17g", i ? ", " : "", a[i]); s += b; } return s + ")"; }

// ---------------------------------------------------------------- numerical differentiation (Ridders), with validity tracking
struct Num { double d = NAN, err = INFINITY; bool ok = false; };
static Num ridders(const std::function<bool(double, double&)>& f, double x, double h) {
  const int NTAB = 10; const double CON = 1.4, CON2 = CON * CON, SAFE = 2;
  double a[NTAB][NTAB]; Num r;
  double fp, fm;
  if (!f(x + h, fp) || !f(x - h, fm)) return r;
  a[0][0] = (fp - fm) / (2 * h);
  double hh = h;
  for (int i = 1; i < NTAB; ++i) {
    hh /= CON;
    if (!f(x + hh, fp) || !f(x - hh, fm)) return r;
    a[0][i] = (fp - fm) / (2 * hh);
    double fac = CON2;
    for (int j = 1; j <= i; ++j) {
      a[j][i] = (a[j - 1][i] * fac - a[j - 1][i - 1]) / (fac - 1);
      fac *= CON2;
      double errt = std::max(std::fabs(a[j][i] - a[j - 1][i]), std::fabs(a[j][i] - a[j - 1][i - 1]));
      if (errt <= r.err) { r.err = errt; r.d = a[j][i]; }
    }
    if (std::fabs(a[i][i] - a[i - 1][i - 1]) >= SAFE * r.err) break;
  }
  r.ok = std::isfinite(r.d) && std::isfinite(r.err);
  return r;
}

struct Verdict { std::string fail, cls; bool judged_deriv = false, judged_hes = false; };

// compares an analytic partial with a numeric one; returns "" if consistent / not judgeable, else description. judged is set when a comparison was made.
static std::string compare(double analytic, const std::function<bool(double, double&)>& f, double x, double fscale, bool& judged) {
  double base = std::min(0.02 * std::max(std::fabs(x), 0.05), 0.5);
  for (double h0 : {base, base / 50}) {
    if (!(x + h0 / 64 != x)) continue;                                   // step not representable next to x
    // two extrapolations from different step scales must agree: guards against aliasing on oscillating functions
    Num r = ridders(f, x, h0), r2 = ridders(f, x, h0 / 7);
    if (!r.ok || !r2.ok) continue;
    double scale = std::max(std::fabs(r.d), std::fabs(analytic));
    if (r.err > 1e-5 * scale + 1e-12) continue;                          // the numerical value itself is not trustworthy here
    if (std::fabs(r.d - r2.d) > 1e-4 * std::max(std::fabs(r.d), std::fabs(r2.d)) + 1e-12) continue;
    // the function must visibly change over the stencil (otherwise the derivative is below the resolution of the values)
    double h = 0.25 * h0, f0, fp, fm, fp2, fm2;
    if (!f(x, f0) || !f(x + h, fp) || !f(x - h, fm) || !f(x + 2 * h, fp2) || !f(x - 2 * h, fm2)) continue;
    double fmax = std::max(std::max(std::fabs(fp), std::fabs(fm)), std::fabs(f0));
    if (std::fabs(fp - fm) < 1e-7 * fmax && std::fabs(analytic) * 2 * h < 1e-7 * fmax) continue;
    // smoothness guard: one-sided slopes must agree (kinks, jumps and branch points are not differentiable points)
    double dr = (-3 * f0 + 4 * fp - fp2) / (2 * h), dl = (3 * f0 - 4 * fm + fm2) / (2 * h);
    if (std::fabs(dr - dl) > 1e-2 * std::max(std::fabs(dr), std::fabs(dl)) + 1e-9) continue;
    judged = true;
    double diff = std::fabs(analytic - r.d);
    // tolerance: 1% relative, plus an absolute floor of 1e-9 and of 1e-7 times the size of the differentiated values (cancellation noise)
    if (diff > 1e-2 * scale + 100 * r.err + 1e-9 + 1e-7 * std::max(fscale, fmax)) {
      char b[200]; snprintf(b, sizeof b, "returned %.12g, numerical differentiation of the binding's own values gives %.12g (+-%.2g)", analytic, r.d, r.err);
      return b;
    }
    return "";
  }
  return "";
}

static size_t hes_index(size_t i, size_t j, size_t n) { if (i > j) std::swap(i, j); return i * (2 * n - i - 1) / 2 + j; }    // row-wise upper triangle, as test/gsl-test.cc reads it

static Verdict judge(const FInfo& fi, const std::vector<double>& args, int mode, const std::vector<char>& dig) {
  Verdict v; std::ostringstream w;
  size_t n = args.size();
  bool random = fi.type == FUNCADD_RANDOM_VALUED;
  Call c = call(fi, args, mode, dig);
  std::string at = fi.name + show_args(args) + (mode == M_VALUE ? "" : mode == M_DERIV ? " [derivs]" : " [derivs+hes]");
  // deterministic
  if (!random) {
    Call c2 = call(fi, args, mode, dig);
    auto same = [](double a, double b) { return std::memcmp(&a, &b, sizeof a) == 0 || (std::isnan(a) && std::isnan(b)); };
    bool eq = same(c.value, c2.value) && c.has_err == c2.has_err && c.err == c2.err;
    for (size_t i = 0; i < c.derivs.size() && eq; ++i) eq = same(c.derivs[i], c2.derivs[i]);
    for (size_t i = 0; i < c.hes.size() && eq; ++i) eq = same(c.hes[i], c2.hes[i]);
    if (!eq) { v.cls = "nondeterministic"; v.fail = at + ": two identical calls return different results"; return v; }
  }
  bool any_nan_arg = false; for (double a : args) any_nan_arg |= std::isnan(a);
  if (any_nan_arg && !c.has_err) { v.cls = "nan-arg-no-error"; v.fail = at + ": NaN argument but no error message (returned " + dstr(c.value) + ")"; return v; }
  // derivative with respect to an integer-valued argument must be refused
  if (mode >= M_DERIV && !c.has_err) {
    for (size_t i = 0; i < n; ++i)
      if (fi.is_int[i] && !(i < dig.size() && dig[i])) { w << at << ": derivative requested with respect to the integer argument " << i << " but no error message is set"; v.cls = "int-deriv-no-error"; v.fail = w.str(); return v; }
  }
  if (c.has_err) { v.cls = c.err.size() && (c.err[0] == '\'' || c.err[0] == '"') ? "deriv-error" : "eval-error"; if (getenv("GSL_VERBOSE")) fprintf(stderr, "Errmsg: %s\n", c.err.c_str()); return v; }
  if (std::isnan(c.value)) { v.cls = "nan-value"; v.fail = at + ": returns NaN without an error message"; return v; }
  if (mode == M_VALUE) { v.cls = "value-ok"; return v; }
  for (size_t i = 0; i < n; ++i) if (!(i < dig.size() && dig[i]) && (std::isnan(c.derivs[i]) || c.derivs[i] == SENTINEL)) { w << at << ": first derivative " << i << (c.derivs[i] == SENTINEL ? " was not stored" : " is NaN") << " and no error message is set"; v.cls = c.derivs[i] == SENTINEL ? "deriv-not-stored" : "nan-deriv"; v.fail = w.str(); return v; }
  if (mode >= M_HES)
    for (size_t i = 0; i < n; ++i) for (size_t j = i; j < n; ++j)
      if (!(i < dig.size() && dig[i]) && !(j < dig.size() && dig[j]) && (std::isnan(c.hes[hes_index(i, j, n)]) || c.hes[hes_index(i, j, n)] == SENTINEL)) { w << at << ": second derivative (" << i << "," << j << ")" << (c.hes[hes_index(i, j, n)] == SENTINEL ? " was not stored" : " is NaN") << " and no error message is set"; v.cls = c.hes[hes_index(i, j, n)] == SENTINEL ? "hes-not-stored" : "nan-hes"; v.fail = w.str(); return v; }
  if (random) { v.cls = "random-ok"; return v; }
  // agreement with numerical differentiation
  double fscale = std::fabs(c.value);
  for (size_t i = 0; i < n; ++i) {
    if ((i < dig.size() && dig[i]) || fi.is_int[i] || !std::isfinite(args[i]) || !std::isfinite(c.derivs[i])) continue;
    auto fval = [&](double x, double& out) { std::vector<double> a = args; a[i] = x; Call r = call(fi, a, M_VALUE, {}); out = r.value; return !r.has_err && std::isfinite(r.value); };
    bool judged = false;
    std::string why = compare(c.derivs[i], fval, args[i], fscale, judged);
    v.judged_deriv |= judged;
    if (!why.empty()) { w << at << ": d/dx" << i << " " << why; v.cls = "deriv-mismatch"; v.fail = w.str(); return v; }
  }
  if (mode >= M_HES) {
    for (size_t i = 0; i < n; ++i) for (size_t j = 0; j < n; ++j) {
      if ((i < dig.size() && dig[i]) || (j < dig.size() && dig[j]) || fi.is_int[i] || fi.is_int[j] || !std::isfinite(args[j])) continue;
      double an = c.hes[hes_index(i, j, n)];
      if (!std::isfinite(an)) continue;
      // d/dx_j of the binding's own first derivative i
      auto fder = [&](double x, double& out) { std::vector<double> a = args; a[j] = x; Call r = call(fi, a, M_DERIV, dig); if (r.has_err) return false; out = r.derivs[i]; return std::isfinite(out); };
      bool judged = false;
      std::string why = compare(an, fder, args[j], std::fabs(c.derivs[i]), judged);
      v.judged_hes |= judged;
      if (!why.empty()) { w << at << ": d2/dx" << i << "dx" << j << " " << why << " (differentiating the returned first derivative)"; v.cls = "hes-mismatch"; v.fail = w.str(); return v; }
    }
  }
  v.cls = mode == M_DERIV ? "derivs-ok" : "hes-ok";
  return v;
}

// ---------------------------------------------------------------- registration + detection of integer arguments
static void init() {
  g_ae.ASLdate = 20200101; g_ae.Addfunc = add_func; g_ae.SnprintF = snprintf; g_ae.VsnprintF = vsnprintf; g_ae.Tempmem = temp_mem; g_ae.AtReset = at_reset_fn;
  funcadd_ASL(&g_ae);
  for (auto& fi : g_funcs) {
    int n = fi.nargs < 0 ? -fi.nargs - 1 : fi.nargs;
    fi.is_int.assign(n, false);
    if (fi.type == FUNCADD_STRING_VALUED || getenv("GSL_NO_PROBE")) continue;      // GSL_NO_PROBE: keep the library untouched before the first judged call
    for (int i = 0; i < n; ++i)
      for (double base : {2.0, 1.0, 3.0, 0.0, 5.0}) {
        std::vector<double> a(n, base); a[i] = base + 0.5;
        Call c; int save = g_call_limit; g_call_limit = 2;
        try { c = call(fi, a, M_VALUE, {}); } catch (const Hang&) { g_call_limit = save; continue; }
        g_call_limit = save;
        if (c.has_err && c.err.find("can't be represented as") != std::string::npos) { fi.is_int[i] = true; break; }
      }
  }
}

// ---------------------------------------------------------------- generators
static int R(int lo, int hi) { return *rc::gen::resize(100, rc::gen::inRange(lo, hi)); }
static double U(double lo, double hi) { return lo + (hi - lo) * (R(0, 1000001) / 1e6); }
static double gen_real() {
  static const std::vector<double> special = {0, 1, -1, 0.5, -0.5, 2, -2, 0.1, 0.9, 0.999999, 1.000001, 1.5, 3, 10, 25.3, 100, -0.1, -3, -10, 1e-3, 1e-8, -1e-8, 1e-300, 1e8, -1e8, 1e300, -1e300, 3.141592653589793, 1.5707963267948966, 0.25, 0.75, 4, 7};
  int c = R(0, 20);
  if (c < 6) return special[R(0, (int)special.size())];
  if (c < 10) return U(0, 1);
  if (c < 13) return U(-3, 3);
  if (c < 16) return U(0, 30);
  if (c < 18) return U(-100, 100);
  if (c == 18) return std::exp(U(-30, 30)) * (R(0, 2) ? 1 : -1);
  return NAN;
}
static double gen_int_arg() {
  int c = R(0, 12);
  if (c < 8) return R(-2, 12);
  if (c == 8) return R(-1000, 1000);
  if (c == 9) return R(0, 3) == 0 ? 2147483647.0 : R(0, 2) ? -2147483648.0 : 1e6;
  if (c == 10) return R(0, 10) + 0.5;          // not an integer: must be refused
  return gen_real();
}
struct Case { int fn; int mode; std::vector<double> args; std::vector<char> dig; };
static Case gen_case() {
  Case c;
  do c.fn = R(0, (int)g_funcs.size()); while (g_funcs[c.fn].type == FUNCADD_STRING_VALUED);
  const FInfo& fi = g_funcs[c.fn];
  size_t n = fi.is_int.size();
  for (size_t i = 0; i < n; ++i) c.args.push_back(fi.is_int[i] ? gen_int_arg() : gen_real());
  c.mode = R(0, 5); if (c.mode > 2) c.mode = c.mode == 3 ? M_DERIV : M_HES;
  int dm = R(0, 6);
  c.dig.assign(n, 0);
  if (dm >= 2) for (size_t i = 0; i < n; ++i) c.dig[i] = fi.is_int[i];       // the proper request: integer arguments marked constant
  if (dm == 5) for (size_t i = 0; i < n; ++i) if (R(0, 3) == 0) c.dig[i] = 1;
  if (dm == 0) c.dig.clear();                                                  // no dig array at all
  return c;
}
static std::string line_of(const Case& c) {
  std::ostringstream o; o << g_funcs[c.fn].name << " " << c.mode << " ";
  if (c.dig.empty()) o << "-"; else for (char d : c.dig) o << (d ? '1' : '0');
  o << " " << c.args.size(); for (double a : c.args) o << " " << dstr(a);
  return o.str();
}
static bool parse_case(const std::string& l, Case& c) {
  std::istringstream i(l); std::string name, dg; size_t n; i >> name >> c.mode >> dg >> n;
  c.fn = -1; for (size_t k = 0; k < g_funcs.size(); ++k) if (g_funcs[k].name == name) c.fn = (int)k;
  if (c.fn < 0) return false;
  c.dig.clear(); if (dg != "-") for (char ch : dg) c.dig.push_back(ch == '1');
  c.args.clear(); for (size_t k = 0; k < n; ++k) { std::string t; i >> t; c.args.push_back(strtod(t.c_str(), 0)); }
  return true;
}

static const char* g_current = nullptr;
static Verdict run_case(const Case& c) {
  if (g_current) { std::ofstream f(g_current); f << line_of(c) << "\n"; }
  try {
    Verdict v = judge(g_funcs[c.fn], c.args, c.mode, c.dig);
    // recorded finding (KNOWN_FINDINGS: derivative-cancellation-extreme-magnitude): the mismatch occurs at an argument of extreme magnitude
    // recorded finding (KNOWN_FINDINGS: gsl-overflow-first-call-differs): with an argument so small that an intermediate Bessel value overflows,
    // libgsl's gsl_sf_bessel_Yn returns 0 on the first call and the overflowed value on later ones
    if (v.cls == "nondeterministic")
      for (double a : c.args) if (std::isfinite(a) && a != 0 && std::fabs(a) <= 1e-100) { v.cls += "@overflowing-argument"; return v; }
    // recorded finding (KNOWN_FINDINGS: gsl-laguerre-3-special-case): GSL's own special case a == -3 of gsl_sf_laguerre_3 returns -x^2/6 instead of -x^3/6
    if ((v.cls == "deriv-mismatch" || v.cls == "hes-mismatch") && g_funcs[c.fn].name == "gsl_sf_laguerre_3" && c.args.size() == 2 && c.args[0] == -3) { v.cls += "@gsl-laguerre3"; return v; }
    if (v.cls == "deriv-mismatch" || v.cls == "hes-mismatch")
      for (double a : c.args) if (std::isfinite(a) && (std::fabs(a) >= 1e6 || (a != 0 && std::fabs(a) <= 1e-2))) { v.cls += "@extreme-magnitude"; break; }
    return v;
  }
  catch (const Hang& h) {
    // iteration counts of many GSL routines grow with the argument: with an argument of extreme magnitude a cut-off call is "slow", not judged
    for (double a : c.args) if (std::isfinite(a) && (std::fabs(a) >= 1e6 || (a != 0 && std::fabs(a) <= 1e-100))) { Verdict v; v.cls = "slow-extreme-args"; return v; }
    // confirm with three times the limit before calling it a hang
    int save = g_call_limit; g_call_limit = 3 * save; Verdict v;
    try { std::vector<double> a; Case cc = c; (void)a; judge(g_funcs[c.fn], c.args, c.mode, c.dig); v.cls = "slow-not-hang"; }
    catch (const Hang& h2) { v.cls = (g_funcs[c.fn].type == FUNCADD_RANDOM_VALUED || g_funcs[c.fn].name.compare(0, 8, "gsl_cdf_") == 0) ? "hang@distribution-parameter" : "hang"; v.fail = h2.what + ": the call does not return (cut off after " + std::to_string(g_call_limit) + " s; normal calls take microseconds)"; }
    g_call_limit = save;
    return v;
  }
}

int main(int argc, char** argv) {
  std::string mode = argc > 1 ? argv[1] : "rc";
  signal(SIGALRM, on_call_alarm);
  if (getenv("GSL_CALL_LIMIT")) g_call_limit = atoi(getenv("GSL_CALL_LIMIT"));
  init();
  g_current = getenv("GSL_CURRENT");
  if (mode == "list") {
    for (auto& fi : g_funcs) { printf("%s nargs=%d type=%d int_args=", fi.name.c_str(), fi.nargs, fi.type); for (bool b : fi.is_int) printf("%d", (int)b); printf("\n"); }
    printf("%zu functions\n", g_funcs.size());
    return 0;
  }
  if ((mode == "replay" || mode == "class") && argc > 2) {
    std::ifstream f(argv[2]); std::string l; std::getline(f, l);
    Case c; if (!parse_case(l, c)) { printf("unknown function in %s\n", l.c_str()); return 2; }
    Verdict v = run_case(c);
    if (mode == "class") { printf("%s %s\n", v.cls.c_str(), g_funcs[c.fn].name.c_str()); return 0; }
    if (!v.fail.empty()) { printf("FAIL %s\n", v.fail.c_str()); return 1; }
    printf("OK %s: %s\n", line_of(c).c_str(), v.cls.c_str()); return 0;
  }
  // recorded findings excluded by construction: "class:function" pairs
  std::set<std::string> skip;
  if (const char* s = getenv("GSL_SKIP")) { std::istringstream i(s); std::string t; while (i >> t) skip.insert(t); }
  const char* failp = getenv("GSL_FAIL"); const char* scanp = getenv("GSL_SCAN");
  unsigned long cases = 0, nontrivial = 0, skipped_known = 0, judged_deriv = 0, judged_hes = 0;
  std::map<std::string, unsigned long> classes; std::set<int> fns_judged, fns_called; std::set<size_t> distinct;
  std::vector<std::string> samples; std::string last_fail;
  bool ok = rc::check("GSL bindings", [&]() {
    Case c = gen_case();
    if (skip.count("hang@distribution-parameter")) {
      // recorded finding distribution-parameter-hang, excluded by construction: a gsl_ran_* call with a non-positive argument, or a
      // gsl_cdf_* call with a non-positive distribution parameter (every argument after the first), can hang or overflow the stack inside GSL
      const FInfo& fi = g_funcs[c.fn];
      bool ran = fi.type == FUNCADD_RANDOM_VALUED, cdf = fi.name.compare(0, 8, "gsl_cdf_") == 0, bad = false;
      for (size_t i = (cdf ? 1 : 0); i < c.args.size() && (ran || cdf); ++i) bad |= !(c.args[i] > 0);
      if (bad) { ++skipped_known; ++classes["known:excluded-nonpositive-distribution-parameter"]; return; }
    }
    ++cases; fns_called.insert(c.fn);
    Verdict v = run_case(c);
    if (!v.fail.empty() && skip.count(v.cls)) { ++skipped_known; ++classes["known:" + v.cls]; return; }
    ++classes[v.cls];
    judged_deriv += v.judged_deriv; judged_hes += v.judged_hes;
    if (v.judged_deriv || v.judged_hes) { ++nontrivial; fns_judged.insert(c.fn); distinct.insert(std::hash<std::string>()(line_of(c))); if (samples.size() < 3) samples.push_back(line_of(c) + " -> " + v.cls); }
    if (!v.fail.empty() && scanp) { std::ofstream f(scanp, std::ios::app); f << line_of(c) << " # " << v.cls << " " << v.fail << "\n"; return; }
    if (!v.fail.empty()) { last_fail = v.fail; if (failp) { std::ofstream f(failp); f << line_of(c) << "\n" << v.cls << " " << g_funcs[c.fn].name << "\n"; } }
    RC_ASSERT(v.fail.empty());
  });
  printf("{\"ok\":%s,\"cases\":%lu,\"nontrivial\":%lu,\"distinct_nontrivial\":%zu,\"skipped_known\":%lu,\"judged_first\":%lu,\"judged_second\":%lu,\"functions_registered\":%zu,\"functions_called\":%zu,\"functions_with_judged_derivative\":%zu,\"classes\":{",
         ok ? "true" : "false", cases, nontrivial, distinct.size(), skipped_known, judged_deriv, judged_hes, g_funcs.size(), fns_called.size(), fns_judged.size());
  bool first = true;
  for (auto& kv : classes) { printf("%s\"%s\":%lu", first ? "" : ",", kv.first.c_str(), kv.second); first = false; }
  printf("},\"fail\":\"");
  for (char ch : last_fail) { if (ch == '"' || ch == '\\') printf("\\%c", ch); else if ((unsigned char)ch < 32 || (unsigned char)ch > 126) printf("?"); else putchar(ch); }
  printf("\",\"samples\":[");
  for (size_t i = 0; i < samples.size(); ++i) printf("%s\"%s\"", i ? "," : "", samples[i].c_str());
  printf("]}\n");
  for (auto& r : g_reset) r.first(r.second);
  return 0;
}
