// C05: a .sol file written by mp::WriteSolFile is read back by mp::SOLReader2 as the same solution.
// rapidcheck generates solutions; modes:  sol_rt rc   (RC_PARAMS from env; prints JSON summary)
//                                         sol_rt replay <case-file>
// A failing (shrunk) case is written to $SOL_RT_FAIL in a line format that `replay` reads.
#include <cmath>
#include <cstdio>
#include <cstdlib>
#include <cstring>
#include <fstream>
#include <map>
#include <set>
#include <sstream>
#include <string>
#include <vector>
#include <unistd.h>

#include "mp/sol.h"
#include "mp/suffix.h"
#include "mp/sol-reader2.h"
#include "mp/sol-reader2.hpp"
#include <rapidcheck.h>

struct Suf { std::string name; int kind; bool real; std::string table; std::map<int, double> vals; int n; };
struct Sol {
  std::string message; std::vector<long> options; int ncons = 0, nvars = 0;
  std::vector<double> dual, primal; int objno = 1, status = 0; std::vector<Suf> sufs;
};

// ---------------------------------------------------------------- (de)serialisation of a case
static std::string hexs(const std::string& s) { static const char* h = "0123456789abcdef"; std::string r; for (unsigned char c : s) { r += h[c >> 4]; r += h[c & 15]; } return r.empty() ? "-" : r; }
static std::string unhex(const std::string& s) { if (s == "-") return ""; std::string r; for (size_t i = 0; i + 1 < s.size(); i += 2) r += (char)strtol(s.substr(i, 2).c_str(), 0, 16); return r; }
static std::string dstr(double d) { char b[64]; if (std::isnan(d)) return "nan"; if (std::isinf(d)) return d > 0 ? "inf" : "-inf"; snprintf(b, sizeof b, "%a", d); return b; }
static void save(const Sol& s, const std::string& path) {
  std::ofstream f(path);
  f << "message " << hexs(s.message) << "\n";
  f << "options " << s.options.size(); for (long o : s.options) f << " " << o; f << "\n";
  f << "dims " << s.ncons << " " << s.nvars << " " << s.objno << " " << s.status << "\n";
  f << "dual " << s.dual.size(); for (double d : s.dual) f << " " << dstr(d); f << "\n";
  f << "primal " << s.primal.size(); for (double d : s.primal) f << " " << dstr(d); f << "\n";
  for (const auto& u : s.sufs) {
    f << "suffix " << hexs(u.name) << " " << u.kind << " " << u.real << " " << u.n << " " << hexs(u.table) << " " << u.vals.size();
    for (auto& kv : u.vals) f << " " << kv.first << " " << dstr(kv.second);
    f << "\n";
  }
}
static Sol load(const std::string& path) {
  Sol s; std::ifstream f(path); std::string line;
  while (std::getline(f, line)) {
    std::istringstream is(line); std::string k; is >> k;
    if (k == "message") { std::string h; is >> h; s.message = unhex(h); }
    else if (k == "options") { size_t n; is >> n; s.options.resize(n); for (auto& o : s.options) is >> o; }
    else if (k == "dims") is >> s.ncons >> s.nvars >> s.objno >> s.status;
    else if (k == "dual" || k == "primal") { size_t n; is >> n; auto& v = k == "dual" ? s.dual : s.primal; v.resize(n); for (auto& d : v) { std::string t; is >> t; d = strtod(t.c_str(), 0); } }
    else if (k == "suffix") { Suf u; std::string hn, ht; size_t nv; is >> hn >> u.kind >> u.real >> u.n >> ht >> nv; u.name = unhex(hn); u.table = unhex(ht);
      for (size_t i = 0; i < nv; ++i) { int idx; std::string t; is >> idx >> t; u.vals[idx] = strtod(t.c_str(), 0); } s.sufs.push_back(u); }
  }
  return s;
}

// ---------------------------------------------------------------- writer side: Solution concept of mp::WriteSolFile
struct SolAdapter {
  const Sol& s; mp::SuffixSet sets[4];
  explicit SolAdapter(const Sol& sol) : s(sol) {
    for (const auto& u : s.sufs) {
      int k = u.kind & 3;
      if (u.real) { auto m = sets[k].Add<double>(u.name, u.kind | mp::suf::OUTPUT, u.n, u.table); for (auto& kv : u.vals) m.set_value(kv.first, kv.second); }
      else { auto m = sets[k].Add<int>(u.name, u.kind | mp::suf::OUTPUT, u.n, u.table); for (auto& kv : u.vals) m.set_value(kv.first, (int)kv.second); }
    }
  }
  const char* message() const { return s.message.c_str(); }
  int num_options() const { return (int)s.options.size(); }
  long option(int i) const { return s.options[i]; }
  int num_values() const { return (int)s.primal.size(); }
  int num_dual_values() const { return (int)s.dual.size(); }
  int num_vars() const { return s.nvars; }
  int num_algebraic_cons() const { return s.ncons; }
  double value(int i) const { return s.primal[i]; }
  double dual_value(int i) const { return s.dual[i]; }
  int objno() const { return s.objno; }
  int status() const { return s.status; }
  const mp::SuffixSet* suffixes(int kind) const { return &sets[kind & 3]; }
};

// ---------------------------------------------------------------- reader side
struct Got {
  mp::NLHeader hdr = mp::NLHeader();
  std::string message; int nbs = -1; bool have_msg = false;
  std::vector<long> options; bool have_options = false, has_vbtol = false;
  std::vector<double> dual, primal; bool have_dual = false, have_primal = false;
  int objno = -99, code = -99;
  struct S { int kind; std::string name, table; std::map<int, double> vals; bool real; };
  std::vector<S> sufs;
  mp::NLHeader Header() const { return hdr; }
  void OnSolveMessage(const char* m, int n) { message = m; nbs = n; have_msg = true; }
  struct AMPLOptions { std::vector<long> options_; bool has_vbtol_; double vbtol_; };
  int OnAMPLOptions(const AMPLOptions& ao) { options = ao.options_; have_options = true; has_vbtol = ao.has_vbtol_; return 0; }
  template <class R> void OnDualSolution(R& rd) { have_dual = true; while (rd.Size()) dual.push_back(rd.ReadNext()); }
  template <class R> void OnPrimalSolution(R& rd) { have_primal = true; while (rd.Size()) primal.push_back(rd.ReadNext()); }
  void OnObjno(int o) { objno = o; }
  void OnSolveCode(int c) { code = c; }
  template <class R> void suf(R& sr, bool real) { S x; x.kind = sr.SufInfo().Kind(); x.name = sr.SufInfo().Name(); x.table = sr.SufInfo().Table(); x.real = real;
    while (sr.Size()) { auto p = sr.ReadNext(); x.vals[p.first] = (double)p.second; } sufs.push_back(x); }
  template <class R> void OnIntSuffix(R& sr) { suf(sr, false); }
  template <class R> void OnDblSuffix(R& sr) { suf(sr, true); }
};

static bool same_real(double w, double g, std::string& why) {
  if (std::isnan(w)) { if (!std::isnan(g)) { why = "NaN written, read back as a number"; return false; } return true; }
  if (std::isinf(w)) { if (g != w) { why = "infinity written, read back as a different value"; return false; } return true; }
  if (w == g) return true;
  if (w == std::floor(w) && std::fabs(w) < 1e15) { why = "integral value below 1e15 not read back exactly"; return false; }
  double rel = std::fabs(w - g) / std::fabs(w);
  if (rel <= 1e-15) return true;
  why = "real value differs by more than 1e-15 relative";
  return false;
}

static std::vector<std::string> msg_lines(std::string m) {
  std::vector<std::string> out; std::string cur;
  for (char c : m) { if (c == '\n') { out.push_back(cur); cur.clear(); } else cur += c; }
  if (!cur.empty()) out.push_back(cur);
  std::vector<std::string> r;
  for (auto& l : out) { while (!l.empty() && l.back() == '\r') l.pop_back(); if (l.empty() || l == " ") continue; r.push_back(l); }   // empty lines are the reserved terminator
  return r;
}

// returns "" if the round trip is faithful, otherwise a description
static std::string roundtrip(const Sol& s, bool& nonfinite_rejected) {
  nonfinite_rejected = false;
  char tmpl[] = "/var/tmp/solrtXXXXXX";
  int fd = mkstemp(tmpl); if (fd < 0) return "mkstemp failed"; close(fd);
  std::string path = tmpl;
  std::string res;
  {
    SolAdapter ad(s);
    mp::WriteSolFile(path, ad);
  }
  Got g; g.hdr.num_vars = s.nvars; g.hdr.num_algebraic_cons = s.ncons;
  mp::NLUtils utils;
  mp::SOLReader2<Got> rd(g, utils);
  auto rc = rd.ReadSOLFile(path);
  bool any_nonfinite = false;
  for (double d : s.dual) any_nonfinite |= !std::isfinite(d);
  for (double d : s.primal) any_nonfinite |= !std::isfinite(d);
  for (auto& u : s.sufs) for (auto& kv : u.vals) any_nonfinite |= !std::isfinite(kv.second);
  std::ostringstream w;
  if (rc != NLW2_SOLRead_OK) {
    if (any_nonfinite) { nonfinite_rejected = true; unlink(path.c_str()); return ""; }   // allowed: rejected with an error code
    w << "reader rejects the written file: code " << (int)rc << ": " << rd.ErrorMessage(rc);
    unlink(path.c_str()); return w.str();
  }
  unlink(path.c_str());
  // message
  std::string exp = s.message; size_t b = 0; while (b < exp.size() && exp[b] == '\b') ++b; exp = exp.substr(b);
  if (msg_lines(exp) != msg_lines(g.message)) { w << "message differs: wrote " << hexs(s.message) << " read " << hexs(g.message); return w.str(); }
  // options
  if (!g.have_options) return "no options reported";
  {
    // handler receives [n, o1..on, ncons, nduals, nvars, nprimals]
    size_t n = s.options.size();
    if (g.options.size() != n + 5 || g.options[0] != (long)n) { w << "options block differs: wrote " << n << " options, handler got vector of " << g.options.size() << " starting with " << (g.options.empty() ? -1 : g.options[0]); return w.str(); }
    for (size_t i = 0; i < n; ++i) if (g.options[i + 1] != s.options[i]) { w << "option " << i << " differs"; return w.str(); }
  }
  if (g.dual.size() != s.dual.size()) { w << "dual vector length: wrote " << s.dual.size() << " read " << g.dual.size(); return w.str(); }
  if (g.primal.size() != s.primal.size()) { w << "primal vector length: wrote " << s.primal.size() << " read " << g.primal.size(); return w.str(); }
  std::string why;
  for (size_t i = 0; i < s.dual.size(); ++i) if (!same_real(s.dual[i], g.dual[i], why)) { w << "dual[" << i << "]: " << why << ": wrote " << dstr(s.dual[i]) << " read " << dstr(g.dual[i]); return w.str(); }
  for (size_t i = 0; i < s.primal.size(); ++i) if (!same_real(s.primal[i], g.primal[i], why)) { w << "primal[" << i << "]: " << why << ": wrote " << dstr(s.primal[i]) << " read " << dstr(g.primal[i]); return w.str(); }
  if (g.objno != s.objno - 1) { w << "objno: wrote " << s.objno - 1 << " read " << g.objno; return w.str(); }
  if (g.code != s.status) { w << "solve code: wrote " << s.status << " read " << g.code; return w.str(); }
  // suffixes: writer order is by kind (var, con, obj, problem), within a kind by (name length, name)
  std::vector<const Suf*> expv;
  for (int k = 0; k < 4; ++k) {
    std::vector<const Suf*> kk;
    for (auto& u : s.sufs) if ((u.kind & 3) == k) kk.push_back(&u);
    std::sort(kk.begin(), kk.end(), [](const Suf* a, const Suf* b) { return a->name.size() != b->name.size() ? a->name.size() < b->name.size() : a->name < b->name; });
    for (auto p : kk) expv.push_back(p);
  }
  if (g.sufs.size() != expv.size()) { w << "number of suffixes: wrote " << expv.size() << " read " << g.sufs.size(); return w.str(); }
  for (size_t i = 0; i < expv.size(); ++i) {
    const Suf& u = *expv[i]; const Got::S& r = g.sufs[i];
    if (r.name != u.name) { w << "suffix name: wrote " << hexs(u.name) << " read " << hexs(r.name); return w.str(); }
    if ((r.kind & 3) != (u.kind & 3) || r.real != u.real) { w << "suffix " << u.name << " kind differs: wrote " << u.kind << "/real=" << u.real << " read " << r.kind; return w.str(); }
    if (r.table != u.table) { w << "suffix " << u.name << " table differs: wrote " << hexs(u.table) << " read " << hexs(r.table); return w.str(); }
    std::map<int, double> nz; for (auto& kv : u.vals) if (u.real ? (kv.second != 0.0) : ((int)kv.second != 0)) nz[kv.first] = u.real ? kv.second : (double)(int)kv.second;
    if (nz.size() != r.vals.size()) { w << "suffix " << u.name << ": wrote " << nz.size() << " non-zero values, read " << r.vals.size(); return w.str(); }
    for (auto& kv : nz) { auto it = r.vals.find(kv.first); if (it == r.vals.end() || !same_real(kv.second, it->second, why)) { w << "suffix " << u.name << "[" << kv.first << "] differs: " << why; return w.str(); } }
  }
  return "";
}

// ---------------------------------------------------------------- generators
static rc::Gen<double> gen_double(bool allow_nonfinite) {
  std::vector<double> special = {0.0, -0.0, 1.0, -1.0, 0.1, 1.0 / 3, 1e15, 999999999999999.0, 1e15 + 2, 123456789012345.0, 0.30000000000000004, 5e-324, 2.2250738585072014e-308,
                                 1.7976931348623157e308, -1.7976931348623157e308, 1e-5, 123456.789, 2147483648.0, 9007199254740993.0, 1e22, 1e23, 4.35, 0.1 + 0.2, 1.0000000000000002};
  if (allow_nonfinite) { special.push_back(INFINITY); special.push_back(-INFINITY); special.push_back(NAN); }
  return rc::gen::oneOf(rc::gen::elementOf(special),
                        rc::gen::map(rc::gen::arbitrary<int>(), [](int v) { return (double)v; }),
                        rc::gen::map(rc::gen::pair(rc::gen::arbitrary<int64_t>(), rc::gen::inRange(-60, 60)), [](std::pair<int64_t, int> p) { return std::ldexp((double)p.first, p.second); }),
                        rc::gen::map(rc::gen::arbitrary<double>(), [](double d) { return std::isfinite(d) ? d : 1.5; }));
}
static rc::Gen<std::string> gen_line() {
  return rc::gen::oneOf(rc::gen::elementOf(std::vector<std::string>{"", " ", "Options", "objno 0 0", "solver 1.2: optimal solution; objective 42", "  leading", "trailing  ", "suffix 0 1 2 0 0", "tab\there", "x\r"}),
                        rc::gen::container<std::string>(rc::gen::inRange<char>(32, 127)),
                        rc::gen::map(rc::gen::inRange(500, 1100), [](int n) { return std::string((size_t)n, 'a'); }));
}
static rc::Gen<Sol> gen_sol(bool nonfinite) {
  return rc::gen::exec([nonfinite]() {
    Sol s;
    int nl = *rc::gen::inRange(0, 5);
    for (int i = 0; i < nl; ++i) { if (i) s.message += "\n"; s.message += *gen_line(); }
    if (*rc::gen::inRange(0, 6) == 0) s.message = std::string((size_t)*rc::gen::inRange(1, 4), '\b') + s.message;
    int nopt = *rc::gen::elementOf(std::vector<int>{3, 3, 3, 4, 5, 9, 3, 4, 6, 7, 8, 3, 0});
    for (int i = 0; i < nopt; ++i) s.options.push_back(*rc::gen::elementOf(std::vector<long>{0, 1, 2, 10, -1, 1000000, 0, 1, 2, 7, 5, 3}));
    s.ncons = *rc::gen::inRange(0, 6); s.nvars = *rc::gen::inRange(0, 7);
    int nd = *rc::gen::elementOf(std::vector<int>{0, s.ncons, s.ncons, s.ncons > 0 ? s.ncons - 1 : 0});
    int np = *rc::gen::elementOf(std::vector<int>{0, s.nvars, s.nvars, s.nvars > 0 ? s.nvars - 1 : 0});
    for (int i = 0; i < nd; ++i) s.dual.push_back(*gen_double(nonfinite));
    for (int i = 0; i < np; ++i) s.primal.push_back(*gen_double(nonfinite));
    s.objno = *rc::gen::inRange(0, 4); s.status = *rc::gen::inRange(-200, 1000);
    int nsuf = *rc::gen::inRange(0, 4);
    std::set<std::string> names[4];
    for (int i = 0; i < nsuf; ++i) {
      Suf u; int k = *rc::gen::inRange(0, 4); u.real = *rc::gen::arbitrary<bool>(); u.kind = k | (u.real ? 4 : 0);
      u.name = *rc::gen::elementOf(std::vector<std::string>{"sstatus", "iis", "x", "bestbound", "a_b", "priority", "relmipgap", std::string(40, 'n')});
      if (!names[k].insert(u.name).second) continue;
      u.n = k == 0 ? s.nvars : k == 1 ? s.ncons : 1;
      if (u.n == 0) continue;
      if (*rc::gen::inRange(0, 3) == 0) u.table = *rc::gen::elementOf(std::vector<std::string>{"0\tnone\tno status", "0\tnone\tno status\n1\tbas\tbasic\n2\tsup\tsuperbasic", "1 a b",
                                                                                                        "0\tnone\tno status\n", "1 a b\n2 c d\n"});   // a table may also end its last line
      int nvals = *rc::gen::inRange(0, u.n + 1);
      for (int j = 0; j < nvals; ++j) { int idx = *rc::gen::inRange(0, u.n); u.vals[idx] = u.real ? *gen_double(nonfinite) : (double)*rc::gen::inRange(-3, 8); }
      s.sufs.push_back(u);
    }
    return s;
  });
}

int main(int argc, char** argv) {
  std::string mode = argc > 1 ? argv[1] : "rc";
  if (mode == "replay" && argc > 2) {
    Sol s = load(argv[2]); bool nf;
    std::string r = roundtrip(s, nf);
    if (!r.empty()) { printf("FAIL %s\n", r.c_str()); return 1; }
    printf("OK\n"); return 0;
  }
  unsigned long cases = 0, nontrivial = 0, nf_rej = 0, with_suffix_table = 0, with_long_digits = 0, multi_line = 0, zero_opts = 0;
  std::set<size_t> distinct;
  std::vector<std::string> samples;
  const char* failp = getenv("SOL_RT_FAIL");
  bool skip_zero_options = getenv("SOL_RT_SKIP_ZERO_OPTIONS") != nullptr, skip_vbtol = getenv("SOL_RT_SKIP_VBTOL") != nullptr;
  bool skip_dblmax = getenv("SOL_RT_SKIP_DBLMAX") != nullptr;
  unsigned long skipped_known = 0;
  bool nonfinite = mode == "rc-nonfinite";
  std::string last_fail;
  bool ok = rc::check("sol write/read round trip", [&]() {
    Sol s = *gen_sol(nonfinite);
    if (skip_zero_options && s.options.empty()) { ++skipped_known; return; }
    if (skip_vbtol && s.options.size() > 1 && s.options[1] == 3) { ++skipped_known; return; }
    if (skip_dblmax) {
      auto huge = [](double d) { return std::isfinite(d) && std::fabs(d) > 1.797693134862315e308; };
      bool h = false;
      for (double d : s.dual) h |= huge(d);
      for (double d : s.primal) h |= huge(d);
      for (auto& u : s.sufs) for (auto& kv : u.vals) h |= huge(kv.second);
      if (h) { ++skipped_known; return; }
    }
    ++cases;
    bool nf = false;
    std::string r = roundtrip(s, nf);
    if (nf) ++nf_rej;
    bool tab = false, digits = false;
    for (auto& u : s.sufs) tab |= !u.table.empty();
    for (double d : s.primal) { char b[40]; snprintf(b, sizeof b, "%.15g", d); digits |= std::isfinite(d) && strtod(b, 0) != d; }
    for (double d : s.dual) { char b[40]; snprintf(b, sizeof b, "%.15g", d); digits |= std::isfinite(d) && strtod(b, 0) != d; }
    bool ml = s.message.find('\n') != std::string::npos;
    with_suffix_table += tab; with_long_digits += digits; multi_line += ml; zero_opts += s.options.empty();
    if ((tab || digits) && ml) { ++nontrivial; std::ostringstream k; k << hexs(s.message) << s.primal.size() << s.dual.size() << s.sufs.size() << s.status; distinct.insert(std::hash<std::string>()(k.str())); }
    if (samples.size() < 4 && (tab || digits)) { std::ostringstream d; d << "msg_lines=" << msg_lines(s.message).size() << " options=" << s.options.size() << " duals=" << s.dual.size() << "/" << s.ncons << " primals=" << s.primal.size() << "/" << s.nvars << " suffixes=" << s.sufs.size() << " code=" << s.status; samples.push_back(d.str()); }
    if (!r.empty()) { last_fail = r; if (failp) save(s, failp); }
    RC_ASSERT(r.empty());
  });
  printf("{\"ok\":%s,\"cases\":%lu,\"nontrivial\":%lu,\"distinct_nontrivial\":%zu,\"nonfinite_rejected\":%lu,\"with_suffix_table\":%lu,\"with_17_digit_reals\":%lu,\"multi_line_message\":%lu,\"zero_options\":%lu,\"skipped_known\":%lu,\"fail\":\"",
         ok ? "true" : "false", cases, nontrivial, distinct.size(), nf_rej, with_suffix_table, with_long_digits, multi_line, zero_opts, skipped_known);
  for (char c : last_fail) { if (c == '"' || c == '\\') printf("\\%c", c); else if ((unsigned char)c < 32) printf(" "); else putchar(c); }
  printf("\",\"samples\":[");
  for (size_t i = 0; i < samples.size(); ++i) printf("%s\"%s\"", i ? "," : "", samples[i].c_str());
  printf("]}\n");
  return 0;
}
