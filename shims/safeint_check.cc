// C17: SafeInt<T> is exact or throws OverflowError, never wraps.
// Oracle: __int128 arithmetic. Modes:
//   enum8                        all pairs, int8_t/uint8_t, + - * and narrowing ctor
//   enum16 <band|full> <part> <nparts> 16-bit pairs (band: either operand within 64 of a boundary / 0 / 2^k)
//   boundary                     boundary x boundary for int, unsigned, long, size_t, llong_t + ctor type matrix
//   rc                           rapidcheck random pairs (RC_PARAMS from env)
//   replay <type> <op> <a> <b>   one case
// Output: JSON on stdout: {"evaluations":..,"nontrivial":..,"failures":[{...}],"samples":[...]}
#include <cstdint>
#include <cstdio>
#include <cstring>
#include <string>
#include <vector>
#include <limits>
#include <thread>
#include <mutex>
#include <atomic>
#include <functional>
#include <typeinfo>
#include <algorithm>
#include <cmath>
#include "mp/safeint.h"
#include <rapidcheck.h>

typedef __int128 I128;
typedef unsigned long ulong_t; typedef long long llong_t; typedef unsigned long long ullong_t;

static std::string s128(I128 v) {
  if (v == 0) return "0";
  bool neg = v < 0; unsigned __int128 u = neg ? -(unsigned __int128)v : (unsigned __int128)v;
  std::string s; while (u) { s.insert(s.begin(), char('0' + int(u % 10))); u /= 10; }
  return neg ? "-" + s : s;
}
static I128 p128(const char *s) {
  bool neg = *s == '-'; if (neg) ++s; unsigned __int128 u = 0;
  for (; *s; ++s) u = u * 10 + unsigned(*s - '0');
  return neg ? -(I128)u : (I128)u;
}

// 128-bit product saturating far outside every 64-bit type (operands are at most 64-bit wide)
static I128 mul128(I128 a, I128 b) { I128 r; if (__builtin_mul_overflow(a, b, &r)) return ((a < 0) != (b < 0)) ? -((I128)1 << 100) : ((I128)1 << 100); return r; }

struct Failure { std::string type, op; I128 a, b; std::string expected, got; };

struct Stats {
  unsigned long long evals = 0, nontrivial = 0, overflow_expected = 0;
  std::vector<Failure> failures;   // capped
  std::vector<std::string> samples;
  unsigned long long nfail = 0;
  void merge(const Stats &o) {
    evals += o.evals; nontrivial += o.nontrivial; overflow_expected += o.overflow_expected; nfail += o.nfail;
    for (auto &f : o.failures) if (failures.size() < 40) failures.push_back(f);
    for (auto &s : o.samples) if (samples.size() < 12) samples.push_back(s);
  }
};

template <class T> struct TN;
#define TNAME(T) template <> struct TN<T> { static const char *n() { return #T; } };
TNAME(int8_t) TNAME(uint8_t) TNAME(int16_t) TNAME(uint16_t) TNAME(int) TNAME(unsigned) TNAME(long) TNAME(ulong_t)
TNAME(llong_t) TNAME(ullong_t)

template <class T> static I128 tmin() { return (I128)std::numeric_limits<T>::min(); }
template <class T> static I128 tmax() { return (I128)std::numeric_limits<T>::max(); }

// result of running the implementation: 0 = value, 1 = OverflowError, 2 = other exception
template <class T, class F> static int run(F f, I128 &out) {
  try { out = (I128)val(f()); return 0; }
  catch (const mp::OverflowError &) { return 1; }
  catch (...) { return 2; }
}

static const char *kGot[] = {"value", "overflow", "other-exception"};

template <class T>
static bool check_one(Stats &st, const char *op, I128 a, I128 b, I128 exact, int rc, I128 got,
                      bool want_sample = false) {
  ++st.evals;
  bool repr = exact >= tmin<T>() && exact <= tmax<T>();
  // non-trivial: the exact result lies within 2 of a representability boundary (either side)
  I128 dlo = exact - tmin<T>(), dhi = exact - tmax<T>();
  bool nt = (dlo >= -2 && dlo <= 2) || (dhi >= -2 && dhi <= 2);
  if (nt) ++st.nontrivial;
  if (!repr) ++st.overflow_expected;
  bool ok = repr ? (rc == 0 && got == exact) : (rc == 1);
  if ((want_sample || (nt && st.samples.size() < 6)) && st.samples.size() < 12)
    st.samples.push_back(std::string(TN<T>::n()) + ": " + s128(a) + " " + op + " " + s128(b) + " -> " +
                         (repr ? s128(exact) : std::string("overflow")));
  if (!ok) {
    ++st.nfail;
    if (st.failures.size() < 40)
      st.failures.push_back({TN<T>::n(), op, a, b, repr ? s128(exact) : "overflow",
                             rc == 0 ? s128(got) : kGot[rc]});
  }
  return ok;
}

template <class T> static bool do_op(Stats &st, char op, T a, T b) {
  I128 got = 0; int rc; I128 exact;
  mp::SafeInt<T> sa(a), sb(b);
  switch (op) {
  case '+': exact = (I128)a + (I128)b; rc = run<T>([&] { return sa + sb; }, got); return check_one<T>(st, "+", a, b, exact, rc, got);
  case '-': exact = (I128)a - (I128)b; rc = run<T>([&] { return sa - sb; }, got); return check_one<T>(st, "-", a, b, exact, rc, got);
  case '*': exact = mul128((I128)a, (I128)b); rc = run<T>([&] { return sa * sb; }, got); return check_one<T>(st, "*", a, b, exact, rc, got);
  }
  return true;
}

// mixed forms SafeInt<T> op U and U op SafeInt<T>: documented as narrowing U to T first.
template <class T, class U> static bool do_mixed(Stats &st, char op, T a, U u) {
  bool ok = true;
  I128 exact_l, exact_r; I128 got = 0; int rc;
  bool u_fits = (I128)u >= tmin<T>() && (I128)u <= tmax<T>();
  mp::SafeInt<T> sa(a);
  std::string opn = std::string(1, op) + "mixed:" + TN<U>::n();
  std::string opr = std::string(1, op) + "mixedR:" + TN<U>::n();
  switch (op) {
  case '+': exact_l = (I128)a + (I128)u; exact_r = exact_l; break;
  case '-': exact_l = (I128)a - (I128)u; exact_r = (I128)u - (I128)a; break;
  default:  exact_l = mul128((I128)a, (I128)u); exact_r = exact_l; break;
  }
  // if u itself does not fit T, the narrowing must throw (result is "overflow" whatever the exact value)
  I128 huge = tmax<T>() + (I128)10;  // a non-representable stand-in
  if (!u_fits) { exact_l = huge; exact_r = huge; }
  switch (op) {
  case '+': rc = run<T>([&] { return sa + u; }, got); ok &= check_one<T>(st, opn.c_str(), a, u, exact_l, rc, got);
            rc = run<T>([&] { return u + sa; }, got); ok &= check_one<T>(st, opr.c_str(), a, u, exact_r, rc, got); break;
  case '-': rc = run<T>([&] { return sa - u; }, got); ok &= check_one<T>(st, opn.c_str(), a, u, exact_l, rc, got);
            rc = run<T>([&] { return u - sa; }, got); ok &= check_one<T>(st, opr.c_str(), a, u, exact_r, rc, got); break;
  default:  rc = run<T>([&] { return sa * u; }, got); ok &= check_one<T>(st, opn.c_str(), a, u, exact_l, rc, got);
            rc = run<T>([&] { return u * sa; }, got); ok &= check_one<T>(st, opr.c_str(), a, u, exact_r, rc, got); break;
  }
  return ok;
}

template <class T, class U> static bool do_ctor(Stats &st, U u) {
  I128 got = 0; int rc = run<T>([&] { return mp::SafeInt<T>(u); }, got);
  std::string opn = std::string("ctor<-") + TN<U>::n();
  return check_one<T>(st, opn.c_str(), (I128)u, 0, (I128)u, rc, got);
}

// ---------------- enumeration -----------------
template <class T> static void enum_all_pairs(Stats &st, bool band_only, int part, int nparts) {
  long lo = (long)tmin<T>(), hi = (long)tmax<T>();
  auto in_band = [&](long v) {
    if (v - lo <= 64 || hi - v <= 64 || (v >= -64 && v <= 64)) return true;
    long av = v < 0 ? -v : v;
    for (long p = 128; p <= 65536; p <<= 1) if (av >= p - 2 && av <= p + 2) return true;
    return false;
  };
  long idx = 0;
  for (long a = lo; a <= hi; ++a, ++idx) {
    if (idx % nparts != part) continue;
    bool ab = in_band(a);
    for (long b = lo; b <= hi; ++b) {
      if (band_only && !ab && !in_band(b)) continue;
      do_op<T>(st, '+', (T)a, (T)b); do_op<T>(st, '-', (T)a, (T)b); do_op<T>(st, '*', (T)a, (T)b);
    }
  }
}

template <class T> static std::vector<T> boundary_set() {
  std::vector<T> v; I128 lo = tmin<T>(), hi = tmax<T>();
  auto add = [&](I128 x) { if (x >= lo && x <= hi) v.push_back((T)x); };
  for (int i = 0; i <= 40; ++i) { add(lo + i); add(hi - i); add(i); add(-(I128)i); }
  for (int k = 1; k < 64; ++k) { I128 p = (I128)1 << k; for (int d = -1; d <= 1; ++d) { add(p + d); add(-p + d); } }
  // floor(sqrt(max)) +- 2
  long double r = sqrtl((long double)hi); I128 s = (I128)r;
  for (int d = -2; d <= 2; ++d) { add(s + d); add(-s + d); }
  for (int d = -2; d <= 2; ++d) { add(hi / 2 + d); add(lo / 2 + d); add(hi / 3 + d); }
  std::sort(v.begin(), v.end()); v.erase(std::unique(v.begin(), v.end()), v.end());
  return v;
}

template <class T> static void boundary_pairs(Stats &st) {
  auto B = boundary_set<T>();
  for (T a : B) for (T b : B) { do_op<T>(st, '+', a, b); do_op<T>(st, '-', a, b); do_op<T>(st, '*', a, b); }
}

template <class T, class U> static void ctor_and_mixed(Stats &st, bool mixed_all) {
  auto BU = boundary_set<U>(); auto BT = boundary_set<T>();
  for (U u : BU) do_ctor<T, U>(st, u);
  // mixed forms on a thinned grid
  size_t stepT = mixed_all ? 1 : 7, stepU = mixed_all ? 1 : 5;
  for (size_t i = 0; i < BT.size(); i += stepT) for (size_t j = 0; j < BU.size(); j += stepU) {
    do_mixed<T, U>(st, '+', BT[i], BU[j]); do_mixed<T, U>(st, '-', BT[i], BU[j]); do_mixed<T, U>(st, '*', BT[i], BU[j]);
  }
}

template <class T> static void ctor_matrix_row(Stats &st, bool narrow) {
  ctor_and_mixed<T, int8_t>(st, narrow); ctor_and_mixed<T, uint8_t>(st, narrow);
  ctor_and_mixed<T, int16_t>(st, narrow); ctor_and_mixed<T, uint16_t>(st, narrow);
  ctor_and_mixed<T, int>(st, false); ctor_and_mixed<T, unsigned>(st, false);
  ctor_and_mixed<T, long>(st, false); ctor_and_mixed<T, ulong_t>(st, false);
  ctor_and_mixed<T, llong_t>(st, false); ctor_and_mixed<T, ullong_t>(st, false);
}

// narrowing ctor: complete for 8/16-bit sources into 8/16-bit targets
template <class T, class U> static void ctor_full(Stats &st) {
  for (long u = (long)tmin<U>(); u <= (long)tmax<U>(); ++u) do_ctor<T, U>(st, (U)u);
}

// ---------------- rapidcheck -----------------
template <class T> static rc::Gen<T> biased() {
  static const std::vector<T> B = boundary_set<T>();
  return rc::gen::oneOf(rc::gen::map(rc::gen::inRange<size_t>(0, B.size()), [](size_t i) { return B[i]; }), rc::gen::arbitrary<T>(),
                        rc::gen::map(rc::gen::arbitrary<int16_t>(), [](int16_t v) { return (T)v; }));
}

static Failure g_last; static bool g_have_last = false;

template <class T> static bool rc_type(Stats &st) {
  bool ok = rc::check(std::string("SafeInt<") + TN<T>::n() + "> exact-or-overflow", [&st]() {
    T a = *biased<T>(), b = *biased<T>();
    Stats local;
    bool ok = do_op<T>(local, '+', a, b) & do_op<T>(local, '-', a, b) & do_op<T>(local, '*', a, b);
    int u = *rc::gen::arbitrary<int>(); ulong_t uu = *biased<ulong_t>();
    ok &= do_mixed<T, int>(local, '+', a, u) & do_mixed<T, int>(local, '*', a, u) & do_mixed<T, int>(local, '-', a, u);
    ok &= do_mixed<T, ulong_t>(local, '+', a, uu) & do_mixed<T, ulong_t>(local, '*', a, uu) &
          do_mixed<T, ulong_t>(local, '-', a, uu);
    ok &= do_ctor<T, ulong_t>(local, uu) & do_ctor<T, llong_t>(local, (llong_t)uu);
    if (!ok) { g_last = local.failures.front(); g_have_last = true; }
    size_t keep = st.failures.size(); st.merge(local);
    st.failures.resize(keep); st.nfail -= local.nfail;   // rc failures are reported once, shrunk
    RC_ASSERT(ok);
  });
  if (!ok && g_have_last) { st.failures.push_back(g_last); ++st.nfail; g_have_last = false; }
  return ok;
}

// ---------------- output -----------------
static void emit(const Stats &st, bool exhaustive) {
  printf("{\"evaluations\":%llu,\"nontrivial\":%llu,\"overflow_expected\":%llu,\"nfail\":%llu,\"exhaustive\":%s,\"failures\":[",
         st.evals, st.nontrivial, st.overflow_expected, st.nfail, exhaustive ? "true" : "false");
  for (size_t i = 0; i < st.failures.size(); ++i) {
    auto &f = st.failures[i];
    printf("%s{\"type\":\"%s\",\"op\":\"%s\",\"a\":\"%s\",\"b\":\"%s\",\"expected\":\"%s\",\"got\":\"%s\"}", i ? "," : "",
           f.type.c_str(), f.op.c_str(), s128(f.a).c_str(), s128(f.b).c_str(), f.expected.c_str(), f.got.c_str());
  }
  printf("],\"samples\":[");
  for (size_t i = 0; i < st.samples.size(); ++i) printf("%s\"%s\"", i ? "," : "", st.samples[i].c_str());
  printf("]}\n");
}

template <class T> static bool replay_T(const char *op, I128 a, I128 b, Stats &st) {
  std::string o(op);
  char c = o[0];
  if (o == "+" || o == "-" || o == "*") return do_op<T>(st, c, (T)a, (T)b);
  auto mixed = [&](auto tag) { typedef decltype(tag) U; return do_mixed<T, U>(st, c, (T)a, (U)b); };
  auto ctor = [&](auto tag) { typedef decltype(tag) U; return do_ctor<T, U>(st, (U)a); };
  size_t p = o.find(':'); std::string un = p == std::string::npos ? o.substr(6) : o.substr(p + 1);
  bool is_ctor = o.rfind("ctor<-", 0) == 0;
#define DISPATCH(U) if (un == #U) return is_ctor ? ctor(U()) : mixed(U());
  DISPATCH(int8_t) DISPATCH(uint8_t) DISPATCH(int16_t) DISPATCH(uint16_t) DISPATCH(int) DISPATCH(unsigned)
  DISPATCH(long) DISPATCH(ulong_t) DISPATCH(llong_t) DISPATCH(ullong_t)
  fprintf(stderr, "bad op %s\n", op); exit(2);
}

int main(int argc, char **argv) {
  std::string mode = argc > 1 ? argv[1] : "enum8";
  Stats st; bool exhaustive = false;
  if (mode == "enum8") {
    enum_all_pairs<int8_t>(st, false, 0, 1); enum_all_pairs<uint8_t>(st, false, 0, 1);
    ctor_full<int8_t, int8_t>(st); ctor_full<int8_t, uint8_t>(st); ctor_full<int8_t, int16_t>(st); ctor_full<int8_t, uint16_t>(st);
    ctor_full<uint8_t, int8_t>(st); ctor_full<uint8_t, uint8_t>(st); ctor_full<uint8_t, int16_t>(st); ctor_full<uint8_t, uint16_t>(st);
    ctor_full<int16_t, int8_t>(st); ctor_full<int16_t, uint8_t>(st); ctor_full<int16_t, int16_t>(st); ctor_full<int16_t, uint16_t>(st);
    ctor_full<uint16_t, int8_t>(st); ctor_full<uint16_t, uint8_t>(st); ctor_full<uint16_t, int16_t>(st); ctor_full<uint16_t, uint16_t>(st);
    exhaustive = true;
  } else if (mode == "enum16") {
    bool band = argc > 2 && !strcmp(argv[2], "band");
    int part = argc > 3 ? atoi(argv[3]) : 0, nparts = argc > 4 ? atoi(argv[4]) : 1;
    // single-threaded on purpose: C++ exception unwinding serialises on a libc lock; the caller runs parts as processes
    enum_all_pairs<int16_t>(st, band, part, nparts); enum_all_pairs<uint16_t>(st, band, part, nparts);
    exhaustive = !band;
  } else if (mode == "boundary") {
    boundary_pairs<int>(st); boundary_pairs<unsigned>(st); boundary_pairs<long>(st); boundary_pairs<ulong_t>(st);
    boundary_pairs<llong_t>(st); boundary_pairs<ullong_t>(st);
    ctor_matrix_row<int8_t>(st, true); ctor_matrix_row<uint8_t>(st, true); ctor_matrix_row<int16_t>(st, true);
    ctor_matrix_row<uint16_t>(st, true); ctor_matrix_row<int>(st, false); ctor_matrix_row<unsigned>(st, false);
    ctor_matrix_row<long>(st, false); ctor_matrix_row<ulong_t>(st, false);
    ctor_matrix_row<llong_t>(st, false); ctor_matrix_row<ullong_t>(st, false);
  } else if (mode == "rc") {
    rc_type<int>(st); rc_type<unsigned>(st); rc_type<long>(st); rc_type<ulong_t>(st);
    rc_type<int16_t>(st); rc_type<uint16_t>(st);
  } else if (mode == "replay" && argc >= 6) {
    std::string t = argv[2]; I128 a = p128(argv[4]), b = p128(argv[5]);
#define RT(T) if (t == #T) replay_T<T>(argv[3], a, b, st);
    RT(int8_t) RT(uint8_t) RT(int16_t) RT(uint16_t) RT(int) RT(unsigned) RT(long) RT(ulong_t) RT(llong_t)
    RT(ullong_t)
  } else { fprintf(stderr, "usage\n"); return 2; }
  emit(st, exhaustive);
  return 0;
}
