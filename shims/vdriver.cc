#include "mp/backend-app.h"
#include "mp/backend-mip.h"
#include "mp/flat/backend_flat.h"
#include "vd_common.h"

namespace vd { Cfg g_cfg; Dump g_dump; }

namespace mp {
// ---------------------------------------------------------------- backend
class VBackend : public FlatBackend< MIPBackend<VBackend> >, public VCommon {
  using BaseBackend = FlatBackend< MIPBackend<VBackend> >;
public:
  VBackend();
  ~VBackend() {}
  static const char* GetAMPLSolverName() { return "vdriver"; }
  static const char* GetAMPLSolverLongName() { return "AMPL-VDRIVER"; }
  static const char* GetSolverName() { return "x-VDRIVER"; }
  std::string GetSolverVersion() { return "0.0.0"; }
  std::string set_external_libs() override { return ""; }
  static const char* GetBackendName() { return "VBackend"; }
  static const char* GetBackendLongName() { return nullptr; }
  void InitCustomOptions() override {
    AddStoredOption("tech:strA strA", "test string option", strA_);
    AddStoredOption("tech:intA intA", "test int option", intA_);
    AddStoredOption("tech:dblA dblA", "test double option", dblA_);
    AddSolveResults({ { sol::FAILURE + 1, "fatal error 1" } });
  }
  void InitOptionParsing() override {}
  void FinishOptionParsing() override {}

  USING_STD_FEATURES;
  ALLOW_STD_FEATURE(WRITE_PROBLEM, true)
  void DoWriteProblem(const std::string&) override {}
  ALLOW_STD_FEATURE(WRITE_SOLUTION, true)
  void DoWriteSolution(const std::string&) override {}
  ALLOW_STD_FEATURE(MULTIOBJ, true)
  ALLOW_STD_FEATURE(MULTISOL, true)
  ALLOW_STD_FEATURE(BASIS, true)
  SolutionBasis GetBasis() override;
  void SetBasis(SolutionBasis) override;
  ALLOW_STD_FEATURE(WARMSTART, true)
  void AddPrimalDualStart(Solution) override;
  ALLOW_STD_FEATURE(MIPSTART, true)
  void AddMIPStart(ArrayRef<double> x0, ArrayRef<int> sparsity) override;
  ALLOW_STD_FEATURE(VAR_PRIORITIES, true)
  void VarPriorities(ArrayRef<int>) override;
  ALLOW_STD_FEATURE(LAZY_USER_CUTS, true)
  void MarkLazyOrUserCuts(ArrayRef<int>) override;
  ALLOW_STD_FEATURE(IIS, true)
  void ComputeIIS() override {}
  IIS GetIIS() override;
  ALLOW_STD_FEATURE(RAYS, true)
  ArrayRef<double> Ray() override;
  ArrayRef<double> DRay() override;
  ALLOW_STD_FEATURE(RETURN_MIP_GAP, true)
  double MIPGap() override { return 0; }
  double MIPGapAbs() override { return 0; }
  ALLOW_STD_FEATURE(RETURN_BEST_DUAL_BOUND, true)
  double BestDualBound() override { return 0; }

  bool IsMIP() const override { return vd::g_cfg.is_mip_override ? vd::g_cfg.is_mip != 0 : vd::g_dump.nint > 0; }
  bool IsQCP() const override { return vd::g_dump.group_count.count(CG_Quadratic) > 0; }
  void SetInterrupter(mp::Interrupter* inter) override { inter->SetHandler(&VBackend::OnInterrupt, this); }
  static bool OnInterrupt(void*) { return true; }

  void Solve() override;
  ArrayRef<double> GetObjectiveValues() override {
    if (!vd::g_cfg.has_obj) return std::vector<double>{};
    return vd::g_cfg.objvals.make((size_t)vd::g_dump.nobjs);
  }
  ArrayRef<double> PrimalSolution() override {
    if (!vd::g_cfg.has_primal) return std::vector<double>{};
    auto x = vd::g_cfg.primal.make((size_t)vd::g_dump.nvars);
    vd::g_dump.add("{\"ev\":\"answer_primal\",\"x\":" + vd::DVec(x) + "}");
    return x;
  }
  pre::ValueMapDbl DualSolution() override {
    std::map<int, std::vector<double> > m;
    if (vd::g_cfg.has_dual)
      for (auto& kv : vd::g_cfg.dual) {
        m[kv.first] = kv.second.make((size_t)vd::g_dump.group_count[kv.first]);
        vd::g_dump.add("{\"ev\":\"answer_dual\",\"group\":" + std::to_string(kv.first) + ",\"y\":" + vd::DVec(m[kv.first]) + "}");
      }
    return pre::ValueMapDbl{ m };
  }
  void ReportResults() override {
    SetStatus({ vd::g_cfg.status, vd::g_cfg.status_text });
    for (int i = 0; i < vd::g_cfg.n_interm; ++i) {
      auto x = vd::g_cfg.primal.make((size_t)vd::g_dump.nvars);
      auto mv = GetValuePresolver().PostsolveSolution({ x, {}, std::vector<double>{ (double)i } });
      ReportIntermediateSolution({ mv.GetVarValues()(), {}, mv.GetObjValues()() });
    }
    BaseBackend::ReportResults();
    vd::g_dump.flush("reported");
  }
  /// C10: the six range predicates for every code, as a JSON table
  void WriteStatusTable(const char* path) {
    std::ofstream f(path);
    f << "{";
    for (int c = -200; c <= 999; ++c) {
      SetStatus({ c, "x" });
      f << (c == -200 ? "" : ",") << "\"" << c << "\":[" << IsProblemSolved() << "," << IsProblemSolvedOrFeasible() << ","
        << IsProblemInfeasible() << "," << IsProblemUnbounded() << "," << IsProblemIndiffInfOrUnb() << "," << IsProblemInfOrUnb() << "]";
    }
    f << "}\n";
  }
private:
  void RunOps();
  template <class MV> static std::string JMV(const MV& mv);
  std::string strA_; int intA_ = 0; double dblA_ = 0;
};

VBackend::VBackend() {
  pre::BasicValuePresolver* pPre;
  auto data = CreateVModelMgr(*this, *this, pPre);
  SetMM(std::move(data));
  SetValuePresolver(pPre);
  copy_common_info_to_other();
}

template <class T> static std::vector<double> ToD(const T& v) { return std::vector<double>(v.begin(), v.end()); }
static std::vector<int> ToI(const std::vector<double>& v) { std::vector<int> r; for (double d : v) r.push_back((int)d); return r; }

template <class VM> static std::string JVMap(const VM& vm) {
  std::string s = "{"; bool f = true;
  for (const auto& kv : vm.GetMap()) { if (!f) s += ","; f = false; s += "\"" + std::to_string(kv.first) + "\":" + vd::DVec(kv.second); }
  return s + "}";
}
template <class MV> std::string VBackend::JMV(const MV& mv) {
  return "{\"vars\":" + JVMap(mv.GetVarValues()) + ",\"cons\":" + JVMap(mv.GetConValues()) + ",\"objs\":" + JVMap(mv.GetObjValues()) + "}";
}

SolutionBasis VBackend::GetBasis() {
  if (!vd::g_cfg.has_basis) return {};
  std::vector<int> varstt = ToI(vd::g_cfg.basis_var.make((size_t)vd::g_dump.nvars));
  std::map<int, std::vector<int> > cm;
  for (auto& kv : vd::g_cfg.basis_con) cm[kv.first] = ToI(kv.second.make((size_t)vd::g_dump.group_count[kv.first]));
  vd::g_dump.add("{\"ev\":\"answer_basis\",\"vars\":" + vd::IVec(varstt) + ",\"cons\":" + JVMap(pre::ValueMapInt{ cm }) + "}");
  auto mv = GetValuePresolver().PostsolveBasis({ varstt, pre::ValueMapInt{ cm } });
  return { mv.GetVarValues()(), mv.GetConValues()() };
}
void VBackend::SetBasis(SolutionBasis basis) {
  auto mv = GetValuePresolver().PresolveBasis({ basis.varstt, basis.constt });
  vd::g_dump.add("{\"ev\":\"set_basis\",\"in_vars\":" + vd::IVec(basis.varstt) + ",\"in_cons\":" + vd::IVec(basis.constt) +
                 ",\"out\":" + JMV(mv) + "}");
}
void VBackend::AddPrimalDualStart(Solution sol0) {
  auto mv = GetValuePresolver().PresolveSolution({ sol0.primal, sol0.dual });
  vd::g_dump.add("{\"ev\":\"primal_dual_start\",\"in_vars\":" + vd::DVec(sol0.primal) + ",\"in_cons\":" + vd::DVec(sol0.dual) +
                 ",\"out\":" + JMV(mv) + "}");
}
void VBackend::AddMIPStart(ArrayRef<double> x0, ArrayRef<int> sparsity) {
  auto mv = GetValuePresolver().PresolveSolution({ x0 });
  auto ms = GetValuePresolver().PresolveGenericInt({ sparsity });
  vd::g_dump.add("{\"ev\":\"mip_start\",\"in_vars\":" + vd::DVec(x0) + ",\"in_spars\":" + vd::IVec(sparsity) +
                 ",\"out\":" + JMV(mv) + ",\"out_spars\":" + JMV(ms) + "}");
}
void VBackend::VarPriorities(ArrayRef<int> pri) {
  auto mv = GetValuePresolver().PresolveGenericInt({ pri });
  vd::g_dump.add("{\"ev\":\"var_priorities\",\"in_vars\":" + vd::IVec(pri) + ",\"out\":" + JMV(mv) + "}");
}
void VBackend::MarkLazyOrUserCuts(ArrayRef<int> lazy) {
  auto mv = GetValuePresolver().PresolveLazyUserCutFlags({ {}, lazy });
  vd::g_dump.add("{\"ev\":\"lazy\",\"in_cons\":" + vd::IVec(lazy) + ",\"out\":" + JMV(mv) + "}");
}
IIS VBackend::GetIIS() {
  if (!vd::g_cfg.has_iis) return {};
  std::vector<int> variis = ToI(vd::g_cfg.iis_var.make((size_t)vd::g_dump.nvars));
  std::map<int, std::vector<int> > cm;
  for (auto& kv : vd::g_cfg.iis_con) cm[kv.first] = ToI(kv.second.make((size_t)vd::g_dump.group_count[kv.first]));
  vd::g_dump.add("{\"ev\":\"answer_iis\",\"vars\":" + vd::IVec(variis) + ",\"cons\":" + JVMap(pre::ValueMapInt{ cm }) + "}");
  auto mv = GetValuePresolver().PostsolveIIS({ variis, pre::ValueMapInt{ cm } });
  return { mv.GetVarValues()(), mv.GetConValues()() };
}
ArrayRef<double> VBackend::Ray() {
  if (!vd::g_cfg.ray.given) return std::vector<double>{};
  auto mv = GetValuePresolver().PostsolveSolution({ vd::g_cfg.ray.make((size_t)vd::g_dump.nvars) });
  return mv.GetVarValues()();
}
ArrayRef<double> VBackend::DRay() {
  if (!vd::g_cfg.dray.given) return std::vector<double>{};
  std::map<int, std::vector<double> > m; m[CG_Linear] = vd::g_cfg.dray.make((size_t)vd::g_dump.group_count[CG_Linear]);
  auto mv = GetValuePresolver().PostsolveSolution({ {}, pre::ValueMapDbl{ m } });
  return mv.GetConValues().MoveOut();
}

void VBackend::RunOps() {
  int k = 0;
  for (const auto& op : vd::g_cfg.ops) {
    bool post = op.kind.rfind("Postsolve", 0) == 0;
    std::vector<double> vars = op.vars.given ? op.vars.make((size_t)vd::g_dump.nvars) : std::vector<double>{};
    std::vector<double> objs = op.objs.given ? op.objs.make((size_t)vd::g_dump.nobjs) : std::vector<double>{};
    std::map<int, std::vector<double> > cons;
    for (auto& kv : op.cons) cons[kv.first] = kv.second.make(post ? (size_t)vd::g_dump.group_count[kv.first] : 0);
    std::string in = "\"in_vars\":" + vd::DVec(vars) + ",\"in_cons\":" + JVMap(pre::ValueMapDbl{ cons }) + ",\"in_objs\":" + vd::DVec(objs);
    std::string out;
    try {
      auto mkD = [&]() { return pre::ModelValuesDbl{ op.vars.given ? pre::ValueMapDbl{ vars } : pre::ValueMapDbl{},
                                                     cons.empty() ? pre::ValueMapDbl{} : (post ? pre::ValueMapDbl{ cons } : pre::ValueMapDbl{ cons.begin()->second }),
                                                     op.objs.given ? pre::ValueMapDbl{ objs } : pre::ValueMapDbl{} }; };
      auto mkI = [&]() {
        std::map<int, std::vector<int> > ci; for (auto& kv : cons) ci[kv.first] = ToI(kv.second);
        return pre::ModelValuesInt{ op.vars.given ? pre::ValueMapInt{ ToI(vars) } : pre::ValueMapInt{},
                                    ci.empty() ? pre::ValueMapInt{} : (post ? pre::ValueMapInt{ ci } : pre::ValueMapInt{ ci.begin()->second }),
                                    op.objs.given ? pre::ValueMapInt{ ToI(objs) } : pre::ValueMapInt{} }; };
      auto& vp = GetValuePresolver();
      if (op.kind == "PresolveSolution") out = JMV(vp.PresolveSolution(mkD()));
      else if (op.kind == "PostsolveSolution") out = JMV(vp.PostsolveSolution(mkD()));
      else if (op.kind == "PresolveGenericDbl") out = JMV(vp.PresolveGenericDbl(mkD()));
      else if (op.kind == "PostsolveGenericDbl") out = JMV(vp.PostsolveGenericDbl(mkD()));
      else if (op.kind == "PresolveGenericInt") out = JMV(vp.PresolveGenericInt(mkI()));
      else if (op.kind == "PostsolveGenericInt") out = JMV(vp.PostsolveGenericInt(mkI()));
      else if (op.kind == "PresolveBasis") out = JMV(vp.PresolveBasis(mkI()));
      else if (op.kind == "PostsolveBasis") out = JMV(vp.PostsolveBasis(mkI()));
      else if (op.kind == "PresolveIIS") out = JMV(vp.PresolveIIS(mkI()));
      else if (op.kind == "PostsolveIIS") out = JMV(vp.PostsolveIIS(mkI()));
      else if (op.kind == "PresolveLazyUserCutFlags") out = JMV(vp.PresolveLazyUserCutFlags(mkI()));
      else if (op.kind == "PostsolveLazyUserCutFlags") out = JMV(vp.PostsolveLazyUserCutFlags(mkI()));
      else out = "\"unknown-op\"";
    } catch (const std::exception& e) {
      out = std::string("{\"exception\":") + vd::Esc(e.what()) + "}";
    }
    vd::g_dump.add("{\"ev\":\"op\",\"k\":" + std::to_string(k++) + ",\"kind\":" + vd::Esc(op.kind.c_str()) + "," + in + ",\"out\":" + out + "}");
  }
}

void VBackend::Solve() {
  vd::g_dump.add("{\"ev\":\"solve\",\"objno_used\":" + std::to_string(this->objno_used()) + "}");
  RunOps();
  if (vd::g_cfg.solve_throw == 1) throw std::runtime_error("scripted solver failure");
  if (vd::g_cfg.solve_throw == 2) MP_RAISE_WITH_CODE(sol::FAILURE + 1, "scripted solver failure with code");
  if (vd::g_cfg.solve_throw == 3) Abort(vd::g_cfg.status, vd::g_cfg.status_text);      // the backend gives up with a solve-result code
}

}  // namespace mp

std::unique_ptr<mp::BasicBackend> CreateVBackend() {
  return std::unique_ptr<mp::BasicBackend>{ new mp::VBackend() };
}

extern "C" int main(int, char** argv) {
  vd::LoadCfg();
  if (const char* st = getenv("VDRIVER_STATUS_TABLE")) {
    mp::VBackend be;
    be.WriteStatusTable(st);
    return 0;
  }
  int rc = mp::RunBackendApp(argv, CreateVBackend);
  return rc;
}
