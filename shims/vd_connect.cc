// The heavy part: instantiates ProblemFlattener + MIPFlatConverter for RecModelAPI
#include "vd_common.h"
#include "mp/flat/redef/MIP/converter_mip.h"
#include "mp/flat/model_api_connect.h"

namespace mp {
std::unique_ptr<BasicModelManager>
CreateVModelMgr(VCommon& cc, Env& e, pre::BasicValuePresolver*& pPre) {
  return CreateModelMgrWithFlatConverter<RecModelAPI, MIPFlatConverter>(cc, e, pPre);
}
}  // namespace mp
