// Under ASan a failing `operator new` aborts the process ("allocator is out of memory") instead of throwing.
// The properties allow any std::exception for hostile sizes, so the targets route new/delete through malloc/free
// (still tracked by ASan; run with allocator_may_return_null=1:max_allocation_size_mb=N) and throw std::bad_alloc.
#pragma once
#include <cstdlib>
#include <new>
void* operator new(std::size_t n) { void* p = std::malloc(n ? n : 1); if (!p) throw std::bad_alloc(); return p; }
void* operator new[](std::size_t n) { void* p = std::malloc(n ? n : 1); if (!p) throw std::bad_alloc(); return p; }
void* operator new(std::size_t n, const std::nothrow_t&) noexcept { return std::malloc(n ? n : 1); }
void* operator new[](std::size_t n, const std::nothrow_t&) noexcept { return std::malloc(n ? n : 1); }
void operator delete(void* p) noexcept { std::free(p); }
void operator delete[](void* p) noexcept { std::free(p); }
void operator delete(void* p, std::size_t) noexcept { std::free(p); }
void operator delete[](void* p, std::size_t) noexcept { std::free(p); }
