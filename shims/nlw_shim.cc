// C03: a model fed to the NL writer (NLW2) is read back by the NL reader as the same model, in text and binary format and under
// every writer option. rapidcheck generates a model specification; SpecFeeder feeds it to mp::WriteNLFile; a recording NLHandler
// turns what mp::ReadNLFile reports into a canonical item map, which is compared with the map computed from the specification
// (numbers bit for bit apart from the sign of zero), and text vs binary against each other.
//   nlw_shim rc             RC_PARAMS from env; prints a JSON summary line
//   nlw_shim replay <file>  re-run one saved case
// The writer's opcode table (nl-opcodes.h) and the reader's (expr-info.cc via NLHandler callbacks) are paired by name below.
#include <cmath>
#include <cstdio>
#include <cstdlib>
#include <cstring>
#include <fstream>
#include <functional>
#include <map>
#include <set>
#include <sstream>
#include <string>
#include <vector>
#include <unistd.h>

#include "mp/nl-reader.h"
#include "mp/nl-writer2.h"
#include "mp/nl-writer2.hpp"
#include "mp/nl-feeder.h"
#include "mp/nl-opcodes.h"
#include "mp/nl-utils.h"
#include <rapidcheck.h>

namespace ex = mp::expr;

// ---------------------------------------------------------------- operator table: writer opcode <-> reader kind
enum Cls { UN, BIN, VARARG, SUM, COUNT, NUMBEROF, NOT_, BINLOG, REL, LCOUNT, IMPL, ITLOG, PAIR, IF_, IFSYM_, NUMBEROFSYM };
struct Op { mp::nl::Opcode w; ex::Kind r; Cls c; };
#define OP(n, c) {mp::nl::n, ex::n, c}
static const std::vector<Op> kOps = {
  OP(FLOOR, UN), OP(CEIL, UN), OP(ABS, UN), OP(MINUS, UN), OP(TANH, UN), OP(TAN, UN), OP(SQRT, UN), OP(SINH, UN), OP(SIN, UN), OP(LOG10, UN), OP(LOG, UN), OP(EXP, UN),
  OP(COSH, UN), OP(COS, UN), OP(ATANH, UN), OP(ATAN, UN), OP(ASINH, UN), OP(ASIN, UN), OP(ACOSH, UN), OP(ACOS, UN), OP(POW2, UN),
  OP(ADD, BIN), OP(SUB, BIN), OP(MUL, BIN), OP(DIV, BIN), OP(MOD, BIN), OP(POW, BIN), OP(LESS, BIN), OP(ATAN2, BIN), OP(TRUNC_DIV, BIN), OP(PRECISION, BIN), OP(ROUND, BIN),
  OP(TRUNC, BIN), OP(POW_CONST_EXP, BIN), OP(POW_CONST_BASE, BIN),
  OP(MIN, VARARG), OP(MAX, VARARG), OP(SUM, SUM), OP(COUNT, COUNT), OP(NUMBEROF, NUMBEROF), OP(NUMBEROF_SYM, NUMBEROFSYM), OP(IF, IF_), OP(IFSYM, IFSYM_),
  OP(NOT, NOT_), OP(OR, BINLOG), OP(AND, BINLOG), OP(IFF, BINLOG), OP(LT, REL), OP(LE, REL), OP(EQ, REL), OP(GE, REL), OP(GT, REL), OP(NE, REL),
  OP(ATLEAST, LCOUNT), OP(ATMOST, LCOUNT), OP(EXACTLY, LCOUNT), OP(NOT_ATLEAST, LCOUNT), OP(NOT_ATMOST, LCOUNT), OP(NOT_EXACTLY, LCOUNT),
  OP(IMPLICATION, IMPL), OP(FORALL, ITLOG), OP(EXISTS, ITLOG), OP(ALLDIFF, PAIR), OP(NOT_ALLDIFF, PAIR)};
static std::vector<int> ops_of(Cls c) { std::vector<int> r; for (size_t i = 0; i < kOps.size(); ++i) if (kOps[i].c == c) r.push_back((int)i); return r; }

// ---------------------------------------------------------------- model specification
enum NodeKind { N_NUM = -1, N_VAR = -2, N_STR = -3, N_CALL = -4, N_PL = -5, N_BOOL = -6 };
struct E { int op = N_NUM; double num = 0; int var = 0; std::string str; std::vector<double> pl; std::vector<E> kids; };
typedef std::vector<std::pair<int, double>> Lin;
struct Con { double L = 0, U = 0; int k = 0, cvar = 0; Lin lin; E expr; };
struct Obj { int sense = 0; Lin lin; E expr; };
struct DefVar { int group = 0; Lin lin; E expr; };
struct Func { std::string name; int nargs = 0, type = 0; };
struct Suf { std::string name; int kind = 0; std::vector<std::pair<int, double>> vals; };
struct Model {
  int nv = 0; int cls[8] = {0};        // nlvb, nlvc, nlvo, nbin, nint, nlvbi, nlvci, nlvoi
  std::vector<double> lb, ub;
  std::vector<Con> cons; std::vector<E> lcons; std::vector<Obj> objs; std::vector<DefVar> dvs; std::vector<Func> funcs;
  std::vector<std::pair<int, double>> ig, idg; std::vector<Suf> sufs;
  std::vector<std::string> vnames, cnames;
  bool comments = false, bounds_first = true; int colsizes = 1;
};

static std::string dstr(double d) { char b[64]; if (std::isnan(d)) return "nan"; if (std::isinf(d)) return d > 0 ? "inf" : "-inf"; if (d == 0) return "0x0p+0"; snprintf(b, sizeof b, "%a", d); return b; }
static std::string hexs(const std::string& s) { static const char* h = "0123456789abcdef"; std::string r; for (unsigned char c : s) { r += h[c >> 4]; r += h[c & 15]; } return r.empty() ? "-" : r; }
static std::string unhex(const std::string& s) { if (s == "-") return ""; std::string r; for (size_t i = 0; i + 1 < s.size(); i += 2) r += (char)strtol(s.substr(i, 2).c_str(), 0, 16); return r; }

// canonical text of an expression as the *reader* names things
static std::string expect(const E& e) {
  std::string s;
  auto args = [&](size_t from = 0) { std::string a = "("; for (size_t i = from; i < e.kids.size(); ++i) { if (i > from) a += ","; a += expect(e.kids[i]); } return a + ")"; };
  switch (e.op) {
  case N_NUM: return "n" + dstr(e.num);
  case N_BOOL: return std::string("bool:") + (e.num != 0 ? "1" : "0");
  case N_VAR: return "v" + std::to_string(e.var);
  case N_STR: return "s'" + hexs(e.str) + "'";
  case N_CALL: return "call" + std::to_string(e.var) + args();
  case N_PL: { s = "pl<"; for (size_t i = 0; i < e.pl.size(); ++i) s += (i ? "," : "") + dstr(e.pl[i]); return s + ">(" + expect(e.kids[0]) + ")"; }
  default: return std::string(ex::str(kOps[e.op].r)) + args();
  }
}

// ---------------------------------------------------------------- feeder (writer side)
struct SpecFeeder : mp::NLFeeder<SpecFeeder, const E*> {
  const Model& m; bool binary;
  SpecFeeder(const Model& mm, bool b) : m(mm), binary(b) {}
  size_t jac_nnz() const { size_t n = 0; for (auto& c : m.cons) n += c.lin.size(); return n; }
  mp::NLHeader Header() {
    mp::NLHeader h;
    h.format = binary ? mp::NLHeader::BINARY : mp::NLHeader::TEXT;
    h.num_vars = m.nv; h.num_algebraic_cons = (int)m.cons.size(); h.num_logical_cons = (int)m.lcons.size(); h.num_objs = (int)m.objs.size();
    h.num_funcs = (int)m.funcs.size();
    for (auto& c : m.cons) { h.num_ranges += (c.k == 0 && c.L > -INFINITY && c.U < INFINITY && c.L != c.U); h.num_eqns += (c.k == 0 && c.L == c.U); h.num_compl_conds += c.k != 0; }
    h.num_nl_vars_in_both = m.cls[0]; h.num_nl_vars_in_cons = m.cls[1]; h.num_nl_vars_in_objs = m.cls[2];
    h.num_linear_binary_vars = m.cls[3]; h.num_linear_integer_vars = m.cls[4];
    h.num_nl_integer_vars_in_both = m.cls[5]; h.num_nl_integer_vars_in_cons = m.cls[6]; h.num_nl_integer_vars_in_objs = m.cls[7];
    h.num_con_nonzeros = jac_nnz(); for (auto& o : m.objs) h.num_obj_nonzeros += o.lin.size();
    for (auto& d : m.dvs) { if (d.group == 0) ++h.num_common_exprs_in_both; else if (d.group > 0) ++h.num_common_exprs_in_single_cons; else ++h.num_common_exprs_in_single_objs; }
    for (auto& s : m.vnames) h.max_var_name_len = std::max<int>(h.max_var_name_len, (int)s.size());
    for (auto& s : m.cnames) h.max_con_name_len = std::max<int>(h.max_con_name_len, (int)s.size());
    if (!m.bounds_first) h.flags |= 0;     // the writer derives the header flag from WantBoundsFirst()
    return h;
  }
  bool WantNLComments() const { return m.comments; }
  bool WantBoundsFirst() const { return m.bounds_first; }
  int WantColumnSizes() const { return m.colsizes; }
  const char* ObjDescription(int i) { return "obj description"; }
  int ObjType(int i) { return m.objs[i].sense; }
  template <class W> void lin(W& w, const Lin& l) { if (l.size()) { auto v = w.MakeVectorWriter(l.size()); for (auto& t : l) v.Write(t.first, t.second); } }
  template <class W> void FeedObjGradient(int i, W& w) { lin(w, m.objs[i].lin); }
  template <class W> void FeedObjExpression(int i, W& w) { w.EPut(&m.objs[i].expr); }
  template <class W> void FeedDefinedVariables(int g, W& w) {
    for (size_t j = 0; j < m.dvs.size(); ++j) if (m.dvs[j].group == g) {
      auto dv = w.StartDefVar(m.nv + (int)j, (int)m.dvs[j].lin.size(), "defvar");
      auto lw = dv.GetLinExprWriter();
      for (auto& t : m.dvs[j].lin) lw.Write(t.first, t.second);
      auto ew = dv.GetExprWriter();
      ew.EPut(&m.dvs[j].expr);
    }
  }
  template <class W> void FeedVarBounds(W& w) { for (int i = 0; i < m.nv; ++i) w.WriteLbUb(m.lb[i], m.ub[i]); }
  template <class W> void FeedConBounds(W& w) { for (auto& c : m.cons) { AlgConRange r; r.L = c.L; r.U = c.U; r.k = c.k; r.cvar = c.cvar; w.WriteAlgConRange(r); } }
  const char* ConDescription(int) { return "con description"; }
  template <class W> void FeedLinearConExpr(int i, W& w) { lin(w, m.cons[i].lin); }
  template <class W> void FeedConExpression(int i, W& w) { w.EPut(i < (int)m.cons.size() ? &m.cons[i].expr : &m.lcons[i - m.cons.size()]); }
  template <class W> void FeedExpr(const E* e, W& w) {
    switch (e->op) {
    case N_NUM: case N_BOOL: w.NPut(e->num); return;
    case N_VAR: w.VPut(e->var, "x"); return;
    case N_STR: w.StrPut(e->str.c_str()); return;
    case N_CALL: { auto a = w.FuncPut(e->var, (int)e->kids.size(), "f"); for (auto& k : e->kids) a.EPut(&k); return; }
    case N_PL: { auto a = w.OPutN(mp::nl::PLTERM, (int)e->pl.size() + 1); for (double d : e->pl) a.NPut(d); a.EPut(&e->kids[0]); return; }
    }
    const Op& o = kOps[e->op];
    switch (o.c) {
    case UN: case NOT_: { auto a = w.OPut1(o.w); a.EPut(&e->kids[0]); return; }
    case BIN: case BINLOG: case REL: case LCOUNT: { auto a = w.OPut2(o.w); a.EPut(&e->kids[0]); a.EPut(&e->kids[1]); return; }
    case IF_: case IFSYM_: case IMPL: { auto a = w.OPut3(o.w); for (int i = 0; i < 3; ++i) a.EPut(&e->kids[i]); return; }
    default: { auto a = w.OPutN(o.w, (int)e->kids.size()); for (auto& k : e->kids) a.EPut(&k); return; }
    }
  }
  struct FD { const Func* f; const char* Name() { return f->name.c_str(); } int NumArgs() { return f->nargs; } int Type() { return f->type; } };
  FD Function(int i) { return FD{&m.funcs[i]}; }
  template <class W> void FeedColumnSizes(W& w) {
    if (!WantColumnSizes()) return;
    std::vector<int> cs(m.nv, 0); for (auto& c : m.cons) for (auto& t : c.lin) ++cs[t.first];
    for (int i = 0; i + 1 < m.nv; ++i) w.Write(cs[i]);
  }
  template <class W> void FeedInitialGuesses(W& w) { if (m.ig.size()) { auto v = w.MakeVectorWriter(m.ig.size()); for (auto& t : m.ig) v.Write(t.first, t.second); } }
  template <class W> void FeedInitialDualGuesses(W& w) { if (m.idg.size()) { auto v = w.MakeVectorWriter(m.idg.size()); for (auto& t : m.idg) v.Write(t.first, t.second); } }
  template <class W> void FeedSuffixes(W& w) {
    for (auto& s : m.sufs) {
      if (s.kind & 4) { auto sw = w.StartDblSuffix(s.name.c_str(), s.kind, (int)s.vals.size()); for (auto& t : s.vals) sw.Write(t.first, t.second); }
      else { auto sw = w.StartIntSuffix(s.name.c_str(), s.kind, (int)s.vals.size()); for (auto& t : s.vals) sw.Write(t.first, (int)t.second); }
    }
  }
  template <class W> void FeedRowAndObjNames(W& w) { if (w && m.cnames.size()) for (auto& s : m.cnames) w << s.c_str(); }
  template <class W> void FeedColNames(W& w) { if (w && m.vnames.size()) for (auto& s : m.vnames) w << s.c_str(); }
};

// ---------------------------------------------------------------- recording handler (reader side)
typedef std::map<std::string, std::string> Items;
struct Rec : mp::NLHandler<Rec, std::string> {
  Items it; mp::NLHeader hdr;
  typedef std::string Expr, NumericExpr, LogicalExpr, CountExpr, Reference;
  struct LinH { Rec* r; std::string key; void AddTerm(int v, double c) { r->it[key] += " " + std::to_string(v) + ":" + dstr(c); } };
  typedef LinH LinearObjHandler, LinearConHandler, LinearExprHandler;
  struct ArgH { std::string head; std::vector<std::string> a; void AddArg(const std::string& s) { a.push_back(s); }
    std::string done() const { std::string s = head + "("; for (size_t i = 0; i < a.size(); ++i) s += (i ? "," : "") + a[i]; return s + ")"; } };
  typedef ArgH NumericArgHandler, VarArgHandler, CallArgHandler, NumberOfArgHandler, CountArgHandler, LogicalArgHandler, PairwiseArgHandler, SymbolicArgHandler;
  struct PLH { std::vector<double> sl, bp; void AddSlope(double s) { sl.push_back(s); } void AddBreakpoint(double b) { bp.push_back(b); } };
  typedef PLH PLTermHandler;
  struct ColH { Rec* r; void Add(int s) { r->it["colsizes"] += " " + std::to_string(s); } };
  typedef ColH ColumnSizeHandler;
  struct SufH { Rec* r; std::string key; void SetValue(int i, double v) { r->it[key] += " " + std::to_string(i) + ":" + dstr(v); } void SetValue(int i, int v) { r->it[key] += " " + std::to_string(i) + ":" + std::to_string(v); } };
  typedef SufH IntSuffixHandler, DblSuffixHandler;

  void OnHeader(const mp::NLHeader& h) {
    hdr = h; std::ostringstream o;
    o << h.num_vars << " " << h.num_algebraic_cons << " " << h.num_objs << " " << h.num_ranges << " " << h.num_eqns << " " << h.num_logical_cons << " | " << h.num_nl_cons << " " << h.num_nl_objs << " "
      << h.num_compl_conds << " " << h.num_nl_compl_conds << " " << h.num_compl_dbl_ineqs << " " << h.num_compl_vars_with_nz_lb << " | " << h.num_nl_net_cons << " " << h.num_linear_net_cons << " | "
      << h.num_nl_vars_in_cons << " " << h.num_nl_vars_in_objs << " " << h.num_nl_vars_in_both << " | " << h.num_linear_net_vars << " " << h.num_funcs << " | " << h.num_linear_binary_vars << " "
      << h.num_linear_integer_vars << " " << h.num_nl_integer_vars_in_both << " " << h.num_nl_integer_vars_in_cons << " " << h.num_nl_integer_vars_in_objs << " | " << h.num_con_nonzeros << " "
      << h.num_obj_nonzeros << " | " << h.max_con_name_len << " " << h.max_var_name_len << " | " << h.num_common_exprs_in_both << " " << h.num_common_exprs_in_cons << " " << h.num_common_exprs_in_objs
      << " " << h.num_common_exprs_in_single_cons << " " << h.num_common_exprs_in_single_objs;
    it["header"] = o.str();
  }
  bool NeedObj(int) const { return true; }
  void OnObj(int i, mp::obj::Type t, const std::string& e) { it["obj " + std::to_string(i)] = std::to_string((int)t) + " " + e; }
  void OnAlgebraicCon(int i, const std::string& e) { it["con " + std::to_string(i)] = e; }
  void OnLogicalCon(int i, const std::string& e) { it["lcon " + std::to_string(i)] = e; }
  LinH BeginCommonExpr(int i, int n) { it["dvlin " + std::to_string(i)] = std::to_string(n) + ":"; return LinH{this, "dvlin " + std::to_string(i)}; }
  void EndCommonExpr(int i, const std::string& e, int pos) { it["dv " + std::to_string(i)] = e; it["dvpos " + std::to_string(i)] = std::to_string(pos); }
  void OnComplementarity(int c, int v, mp::ComplInfo info) { it["cb " + std::to_string(c)] = "compl " + std::to_string(v) + " " + dstr(info.con_lb()) + " " + dstr(info.con_ub()); }
  LinH OnLinearObjExpr(int i, int n) { it["objlin " + std::to_string(i)] = std::to_string(n) + ":"; return LinH{this, "objlin " + std::to_string(i)}; }
  LinH OnLinearConExpr(int i, int n) { it["conlin " + std::to_string(i)] = std::to_string(n) + ":"; return LinH{this, "conlin " + std::to_string(i)}; }
  void OnVarBounds(int i, double l, double u) { it["vb " + std::to_string(i)] = dstr(l) + " " + dstr(u); }
  void OnConBounds(int i, double l, double u) { it["cb " + std::to_string(i)] = dstr(l) + " " + dstr(u); }
  void OnInitialValue(int i, double v) { it["ig " + std::to_string(i)] = dstr(v); }
  void OnInitialDualValue(int i, double v) { it["idg " + std::to_string(i)] = dstr(v); }
  ColH OnColumnSizes() { it["colsizes"] = ":"; return ColH{this}; }
  void OnFunction(int i, fmt::StringRef name, int nargs, mp::func::Type t) { it["func " + std::to_string(i)] = hexs(name.to_string()) + " " + std::to_string(nargs) + " " + std::to_string((int)t); }
  SufH OnIntSuffix(fmt::StringRef name, mp::suf::Kind k, int n) { std::string key = "suf " + name.to_string() + " " + std::to_string((int)k) + " int"; it[key] = std::to_string(n) + ":"; return SufH{this, key}; }
  SufH OnDblSuffix(fmt::StringRef name, mp::suf::Kind k, int n) { std::string key = "suf " + name.to_string() + " " + std::to_string((int)k) + " dbl"; it[key] = std::to_string(n) + ":"; return SufH{this, key}; }
  std::string OnNumber(double v) { return "n" + dstr(v); }
  std::string OnVariableRef(int i) { return "v" + std::to_string(i); }
  std::string OnCommonExprRef(int i) { return "v" + std::to_string(hdr.num_vars + i); }
  std::string OnUnary(ex::Kind k, const std::string& a) { return std::string(ex::str(k)) + "(" + a + ")"; }
  std::string OnBinary(ex::Kind k, const std::string& a, const std::string& b) { return std::string(ex::str(k)) + "(" + a + "," + b + ")"; }
  std::string OnIf(const std::string& c, const std::string& a, const std::string& b) { return std::string(ex::str(ex::IF)) + "(" + c + "," + a + "," + b + ")"; }
  PLH BeginPLTerm(int) { return PLH(); }
  std::string EndPLTerm(PLH h, const std::string& arg) { std::string s = "pl<"; for (size_t i = 0; i < h.sl.size(); ++i) { if (i) s += ","; s += dstr(h.sl[i]); if (i < h.bp.size()) s += "," + dstr(h.bp[i]); } return s + ">(" + arg + ")"; }
  ArgH BeginCall(int f, int) { return ArgH{"call" + std::to_string(f), {}}; }
  std::string EndCall(ArgH h) { return h.done(); }
  ArgH BeginVarArg(ex::Kind k, int) { return ArgH{ex::str(k), {}}; }
  std::string EndVarArg(ArgH h) { return h.done(); }
  ArgH BeginSum(int) { return ArgH{ex::str(ex::SUM), {}}; }
  std::string EndSum(ArgH h) { return h.done(); }
  ArgH BeginCount(int) { return ArgH{ex::str(ex::COUNT), {}}; }
  std::string EndCount(ArgH h) { return h.done(); }
  ArgH BeginNumberOf(int, const std::string& a0) { return ArgH{ex::str(ex::NUMBEROF), {a0}}; }
  std::string EndNumberOf(ArgH h) { return h.done(); }
  ArgH BeginSymbolicNumberOf(int, const std::string& a0) { return ArgH{ex::str(ex::NUMBEROF_SYM), {a0}}; }
  std::string EndSymbolicNumberOf(ArgH h) { return h.done(); }
  std::string OnBool(bool v) { return std::string("bool:") + (v ? "1" : "0"); }
  std::string OnNot(const std::string& a) { return std::string(ex::str(ex::NOT)) + "(" + a + ")"; }
  std::string OnBinaryLogical(ex::Kind k, const std::string& a, const std::string& b) { return std::string(ex::str(k)) + "(" + a + "," + b + ")"; }
  std::string OnRelational(ex::Kind k, const std::string& a, const std::string& b) { return std::string(ex::str(k)) + "(" + a + "," + b + ")"; }
  std::string OnLogicalCount(ex::Kind k, const std::string& a, const std::string& b) { return std::string(ex::str(k)) + "(" + a + "," + b + ")"; }
  std::string OnImplication(const std::string& c, const std::string& a, const std::string& b) { return std::string(ex::str(ex::IMPLICATION)) + "(" + c + "," + a + "," + b + ")"; }
  ArgH BeginIteratedLogical(ex::Kind k, int) { return ArgH{ex::str(k), {}}; }
  std::string EndIteratedLogical(ArgH h) { return h.done(); }
  ArgH BeginPairwise(ex::Kind k, int) { return ArgH{ex::str(k), {}}; }
  std::string EndPairwise(ArgH h) { return h.done(); }
  std::string OnString(fmt::StringRef s) { return "s'" + hexs(s.to_string()) + "'"; }
  std::string OnSymbolicIf(const std::string& c, const std::string& a, const std::string& b) { return std::string(ex::str(ex::IFSYM)) + "(" + c + "," + a + "," + b + ")"; }
  void EndInput() { it["end"] = "1"; }
};

// ---------------------------------------------------------------- expected items from the specification
static std::string linstr(const Lin& l) { std::string s = std::to_string(l.size()) + ":"; for (auto& t : l) s += " " + std::to_string(t.first) + ":" + dstr(t.second); return s; }
// the reader reports a constant-zero nonlinear part of an algebraic constraint / objective as "no expression" (documented: ignore_zero)
static std::string top(const E& e) { return e.op == N_NUM && e.num == 0 ? "" : expect(e); }
// the writer's documented infinity is DBL_MAX (NLWriter2::Infty): a bound of that magnitude means "no bound"
static double lbnd(double v) { return v <= -1.7976931348623157e308 ? -INFINITY : v; }
static double ubnd(double v) { return v >= 1.7976931348623157e308 ? INFINITY : v; }
static Items expected(const Model& m) {
  Items it; SpecFeeder f(m, false); Rec r; r.OnHeader(f.Header()); it["header"] = r.it["header"];
  // the reader fills num_nl_cons etc. from the header line; the feeder leaves what it does not know at 0 - identical on both sides
  for (int i = 0; i < m.nv; ++i) it["vb " + std::to_string(i)] = dstr(lbnd(m.lb[i])) + " " + dstr(ubnd(m.ub[i]));
  for (size_t i = 0; i < m.cons.size(); ++i) {
    auto& c = m.cons[i]; std::string k = std::to_string(i);
    if (c.k) it["cb " + k] = "compl " + std::to_string(c.cvar) + " " + dstr((c.k & 2) ? -INFINITY : 0) + " " + dstr((c.k & 1) ? INFINITY : 0);
    else it["cb " + k] = dstr(lbnd(c.L)) + " " + dstr(ubnd(c.U));
    it["con " + k] = top(c.expr);
    if (c.lin.size()) it["conlin " + k] = linstr(c.lin);
  }
  for (size_t i = 0; i < m.lcons.size(); ++i) it["lcon " + std::to_string(i)] = expect(m.lcons[i]);
  for (size_t i = 0; i < m.objs.size(); ++i) { it["obj " + std::to_string(i)] = std::to_string(m.objs[i].sense) + " " + top(m.objs[i].expr); if (m.objs[i].lin.size()) it["objlin " + std::to_string(i)] = linstr(m.objs[i].lin); }
  for (size_t j = 0; j < m.dvs.size(); ++j) { it["dv " + std::to_string(j)] = expect(m.dvs[j].expr); it["dvlin " + std::to_string(j)] = linstr(m.dvs[j].lin);
    // where the defined variable belongs: 0 = shared, k = constraint k-1 (logical ones after the algebraic ones), then the objectives
    int g = m.dvs[j].group; it["dvpos " + std::to_string(j)] = std::to_string(g >= 0 ? g : (int)m.cons.size() + (int)m.lcons.size() - g); }
  for (size_t i = 0; i < m.funcs.size(); ++i) it["func " + std::to_string(i)] = hexs(m.funcs[i].name) + " " + std::to_string(m.funcs[i].nargs) + " " + std::to_string(m.funcs[i].type);
  for (auto& t : m.ig) it["ig " + std::to_string(t.first)] = dstr(t.second);
  for (auto& t : m.idg) it["idg " + std::to_string(t.first)] = dstr(t.second);
  for (auto& s : m.sufs) {
    if (s.vals.empty()) continue;           // a suffix without non-default entries carries no information and is not written
    std::string key = "suf " + s.name + " " + std::to_string(s.kind & 3) + ((s.kind & 4) ? " dbl" : " int"), v = std::to_string(s.vals.size()) + ":";
    for (auto& t : s.vals) v += " " + std::to_string(t.first) + ":" + ((s.kind & 4) ? dstr(t.second) : std::to_string((int)t.second));
    it[key] = v;
  }
  if (m.colsizes && m.nv > 0) {
    std::vector<int> cs(m.nv, 0); for (auto& c : m.cons) for (auto& t : c.lin) ++cs[t.first];
    std::string s = ":"; for (int i = 0; i + 1 < m.nv; ++i) s += " " + std::to_string(cs[i]); it["colsizes"] = s;
  }
  it["end"] = "1";
  return it;
}

static std::string g_dir;
static std::string diff_items(const Items& a, const Items& b, const char* na, const char* nb) {
  for (auto& kv : a) { auto j = b.find(kv.first); if (j == b.end()) return std::string("item '") + kv.first + "' (" + kv.second.substr(0, 120) + ") present in " + na + " but missing in " + nb;
    if (j->second != kv.second) return std::string("item '") + kv.first + "' differs: " + na + " = " + kv.second.substr(0, 200) + "  |  " + nb + " = " + j->second.substr(0, 200); }
  for (auto& kv : b) if (!a.count(kv.first)) return std::string("item '") + kv.first + "' (" + kv.second.substr(0, 120) + ") present in " + nb + " but missing in " + na;
  return "";
}
static std::string read_lines(const std::string& path) { std::ifstream f(path); std::stringstream ss; ss << f.rdbuf(); return ss.str(); }

// returns "" if the round trip is faithful
static std::string roundtrip(const Model& m) {
  Items exp = expected(m), got[2];
  for (int b = 0; b < 2; ++b) {
    std::string stub = g_dir + "/m" + std::to_string(b);
    for (const char* ext : {".nl", ".col", ".row"}) unlink((stub + ext).c_str());
    SpecFeeder f(m, b == 1); mp::NLUtils utils;
    auto res = mp::WriteNLFile(stub, f, utils);
    if (res.first != NLW2_WriteNL_OK) return std::string(b ? "binary" : "text") + " write failed: " + res.second;
    Rec r;
    try { mp::ReadNLFile(stub + ".nl", r); }
    catch (const std::exception& e) { return std::string("reader rejects the written ") + (b ? "binary" : "text") + " file: " + e.what(); }
    got[b] = r.it;
    if (m.vnames.size()) { std::string want; for (auto& s : m.vnames) want += s + "\n"; if (read_lines(stub + ".col") != want) return std::string(b ? "binary" : "text") + ": .col file does not list the variable names"; }
    if (m.cnames.size()) { std::string want; for (auto& s : m.cnames) want += s + "\n"; if (read_lines(stub + ".row") != want) return std::string(b ? "binary" : "text") + ": .row file does not list the constraint/objective names"; }
  }
  std::string d = diff_items(exp, got[0], "the model", "the text read-back");
  if (d.empty()) d = diff_items(exp, got[1], "the model", "the binary read-back");
  if (d.empty()) d = diff_items(got[0], got[1], "text", "binary");
  return d;
}

// ---------------------------------------------------------------- generators
static int R(int lo, int hi) { return *rc::gen::resize(100, rc::gen::inRange(lo, hi)); }
static double gen_double(bool allow_inf = false) {
  static const std::vector<double> special = {0.0, -0.0, 1.0, -1.0, 2.0, 0.5, 0.1, 1.0 / 3, 1e15, 1e16, 123456789012345678.0, 0.30000000000000004, 5e-324, -5e-324, 2.2250738585072014e-308, 2.225073858507201e-308,
    1.7976931348623157e308, -1.7976931348623157e308, 1e-5, 123456.789, 2147483648.0, 9007199254740993.0, 1e22, 1e23, 4.35, 1.0000000000000002, 0.99999999999999989, 1e-310, 32767, 32768, -32768, -32769, 1e100, 3.0e-7};
  int c = R(0, allow_inf ? 11 : 10);
  if (c == 10) return R(0, 2) ? INFINITY : -INFINITY;
  if (c < 3) return special[R(0, (int)special.size())];
  if (c < 6) return R(-40000, 40000);
  if (c < 8) { double d = *rc::gen::arbitrary<double>(); return std::isfinite(d) ? d : 1.5; }
  return std::ldexp((double)*rc::gen::arbitrary<int64_t>(), R(-80, 40));
}
static E gen_log(int depth, const Model& m, int nref);
static E leaf_num(const Model& m, int nref) {
  E e; int c = R(0, 3);
  if (c == 0 || nref == 0) { e.op = N_NUM; e.num = gen_double(R(0, 8) == 0); }
  else { e.op = N_VAR; e.var = R(0, nref); }
  return e;
}
static E gen_str() { E e; e.op = N_STR; e.str = *rc::gen::elementOf(std::vector<std::string>{"", "a", "abc", "hello world", "tab\there", std::string(70, 'x'), "o54", "n1", "\xc3\xa9", "a'b\"c"}); return e; }
static E gen_num(int depth, const Model& m, int nref) {
  if (depth <= 0) return leaf_num(m, nref);
  E e; int c = R(0, 12);
  auto pick = [&](Cls cl) { auto v = ops_of(cl); return v[R(0, (int)v.size())]; };
  switch (c) {
  case 0: case 1: return leaf_num(m, nref);
  case 2: case 3: e.op = pick(UN); e.kids.push_back(gen_num(depth - 1, m, nref)); break;
  case 4: case 5: e.op = pick(BIN); e.kids.push_back(gen_num(depth - 1, m, nref)); e.kids.push_back(gen_num(depth - 1, m, nref)); break;
  case 6: e.op = pick(VARARG); for (int i = R(1, 5); i > 0; --i) e.kids.push_back(gen_num(depth - 1, m, nref)); break;
  case 7: e.op = pick(SUM); for (int i = R(3, 7); i > 0; --i) e.kids.push_back(gen_num(depth - 1, m, nref)); break;
  case 8: e.op = pick(IF_); e.kids.push_back(gen_log(depth - 1, m, nref)); e.kids.push_back(gen_num(depth - 1, m, nref)); e.kids.push_back(gen_num(depth - 1, m, nref)); break;
  case 9:
    if (nref > 0 && R(0, 2)) { e.op = N_PL; int ns = R(2, 6); for (int i = 0; i < 2 * ns - 1; ++i) e.pl.push_back(gen_double()); E v; v.op = N_VAR; v.var = R(0, nref); e.kids.push_back(v); }
    else { e.op = pick(COUNT); for (int i = R(1, 4); i > 0; --i) e.kids.push_back(gen_log(depth - 1, m, nref)); }
    break;
  case 10:
    if (!m.funcs.empty()) {
      e.op = N_CALL; e.var = R(0, (int)m.funcs.size()); const Func& f = m.funcs[e.var];
      int na = f.nargs >= 0 ? f.nargs : R(-f.nargs - 1, -f.nargs + 3);
      for (int i = 0; i < na; ++i) e.kids.push_back(f.type == 1 && R(0, 2) ? gen_str() : gen_num(depth - 1, m, nref));
    } else return leaf_num(m, nref);
    break;
  default:
    if (R(0, 3) == 0) { e.op = pick(NUMBEROFSYM); e.kids.push_back(R(0, 2) ? gen_str() : gen_num(depth - 1, m, nref)); for (int i = R(0, 3); i > 0; --i) e.kids.push_back(R(0, 2) ? gen_str() : gen_num(depth - 1, m, nref)); }
    else { e.op = pick(NUMBEROF); for (int i = R(1, 5); i > 0; --i) e.kids.push_back(gen_num(depth - 1, m, nref)); }
  }
  return e;
}
static E gen_log(int depth, const Model& m, int nref) {
  E e; auto pick = [&](Cls cl) { auto v = ops_of(cl); return v[R(0, (int)v.size())]; };
  if (depth <= 0) { e.op = N_BOOL; e.num = R(0, 2); return e; }
  switch (R(0, 9)) {
  case 0: e.op = N_BOOL; e.num = R(0, 2); break;
  case 1: e.op = pick(NOT_); e.kids.push_back(gen_log(depth - 1, m, nref)); break;
  case 2: e.op = pick(BINLOG); e.kids.push_back(gen_log(depth - 1, m, nref)); e.kids.push_back(gen_log(depth - 1, m, nref)); break;
  case 3: case 4: e.op = pick(REL); e.kids.push_back(gen_num(depth - 1, m, nref)); e.kids.push_back(gen_num(depth - 1, m, nref)); break;
  case 5: { e.op = pick(LCOUNT); e.kids.push_back(gen_num(depth - 1, m, nref)); E c; c.op = ops_of(COUNT)[0]; for (int i = R(1, 4); i > 0; --i) c.kids.push_back(gen_log(depth - 2, m, nref)); e.kids.push_back(c); break; }
  case 6: e.op = pick(IMPL); for (int i = 0; i < 3; ++i) e.kids.push_back(gen_log(depth - 1, m, nref)); break;
  case 7: e.op = pick(ITLOG); for (int i = R(3, 6); i > 0; --i) e.kids.push_back(gen_log(depth - 1, m, nref)); break;
  default: e.op = pick(PAIR); for (int i = R(1, 5); i > 0; --i) e.kids.push_back(gen_num(depth - 1, m, nref)); break;
  }
  return e;
}
static void gen_bounds0(double& l, double& u);
static Lin gen_lin(int nv, int maxn) {
  Lin l; if (nv == 0) return l;
  std::set<int> used; int n = R(0, std::min(nv, maxn) + 1);
  for (int i = 0; i < n; ++i) { int v = R(0, nv); if (used.insert(v).second) l.push_back({v, gen_double()}); }
  std::sort(l.begin(), l.end());
  return l;
}
static void gen_bounds(double& l, double& u) {
  gen_bounds0(l, u);
  // a lower bound of +DBL_MAX / an upper bound of -DBL_MAX has no meaning under the writer's infinity convention
  if (l >= 1.7976931348623157e308) l = 1e300;
  if (u <= -1.7976931348623157e308) u = -1e300;
}
static void gen_bounds0(double& l, double& u) {
  switch (R(0, 7)) {
  case 0: l = -INFINITY; u = INFINITY; break;
  case 1: l = gen_double(); u = INFINITY; break;
  case 2: l = -INFINITY; u = gen_double(); break;
  case 3: l = u = gen_double(); break;
  default: l = gen_double(); u = gen_double(); if (l > u && R(0, 5)) std::swap(l, u);
  }
}
static Model gen_model() {
  Model m;
  m.nv = R(1, 7);
  // variable classes: nonlinear (both <= cons, objs) first, then linear continuous, binary, integer
  int nl = R(0, m.nv + 1); m.cls[1] = R(0, nl + 1); m.cls[2] = nl; m.cls[0] = R(0, std::min(m.cls[1], m.cls[2]) + 1);
  int rest = m.nv - nl; m.cls[3] = R(0, rest + 1); m.cls[4] = R(0, rest - m.cls[3] + 1);
  m.cls[5] = R(0, m.cls[0] + 1); m.cls[6] = R(0, std::max(0, m.cls[1] - m.cls[0]) + 1); m.cls[7] = R(0, std::max(0, m.cls[2] - m.cls[1]) + 1);
  for (int i = 0; i < m.nv; ++i) { double l, u; gen_bounds(l, u); m.lb.push_back(l); m.ub.push_back(u); }
  for (int i = R(0, 4); i > 0; --i) { Func f; f.name = *rc::gen::elementOf(std::vector<std::string>{"f", "gsl_hypot", "my_func", "F2", std::string(40, 'g')}) + std::to_string(i); f.nargs = R(-3, 4); f.type = R(0, 2); m.funcs.push_back(f); }
  int ncon = R(0, 5), nlcon = R(0, 3), nobj = R(0, 4), ndv = R(0, 4);
  int depth = R(0, 4);
  // defined variables: group 0 first (they may be referenced anywhere), then per-constraint / per-objective ones
  std::vector<int> groups; for (int j = 0; j < ndv; ++j) { int g = R(0, 3); groups.push_back(g == 0 ? 0 : (g == 1 && ncon + nlcon > 0) ? 1 + R(0, ncon + nlcon) : (nobj > 0 ? -1 - R(0, nobj) : 0)); }
  std::stable_sort(groups.begin(), groups.end(), [](int a, int b) { return (a != 0) < (b != 0); });
  for (int j = 0; j < ndv; ++j) { DefVar d; d.group = groups[j]; d.lin = gen_lin(m.nv, 3); d.expr = gen_num(depth, m, m.nv + (groups[j] == 0 ? j : 0)); m.dvs.push_back(d); }
  int n0 = 0; for (int g : groups) n0 += g == 0;
  auto nref_for = [&](int group) { return m.nv + n0; };       // expressions refer to variables and the shared defined variables
  for (int i = 0; i < ncon; ++i) {
    Con c; if (R(0, 5) == 0) { c.k = R(1, 4); c.cvar = R(0, m.nv); } else gen_bounds(c.L, c.U);
    c.lin = gen_lin(m.nv, 4); c.expr = gen_num(depth, m, nref_for(i + 1)); m.cons.push_back(c);
  }
  for (int i = 0; i < nlcon; ++i) m.lcons.push_back(gen_log(depth + 1, m, nref_for(ncon + i + 1)));
  for (int i = 0; i < nobj; ++i) { Obj o; o.sense = R(0, 2); o.lin = gen_lin(m.nv, 4); o.expr = gen_num(depth, m, nref_for(-i - 1)); m.objs.push_back(o); }
  for (int i = 0; i < m.nv; ++i) if (R(0, 3) == 0) m.ig.push_back({i, gen_double()});
  for (int i = 0; i < ncon; ++i) if (R(0, 3) == 0) m.idg.push_back({i, gen_double()});
  std::set<std::string> seen;
  for (int i = R(0, 4); i > 0; --i) {
    Suf s; s.name = *rc::gen::elementOf(std::vector<std::string>{"sstatus", "priority", "ref", "sosno", "x", "a_b1", std::string(30, 's')}); s.kind = R(0, 4) | (R(0, 2) ? 4 : 0);
    int n = (s.kind & 3) == 0 ? m.nv : (s.kind & 3) == 1 ? ncon + nlcon : (s.kind & 3) == 2 ? nobj : 1;
    if (n == 0 || !seen.insert(s.name + std::to_string(s.kind & 3)).second) continue;
    for (int j = 0; j < n; ++j) if (R(0, 2)) s.vals.push_back({j, (s.kind & 4) ? gen_double() : (double)R(-5, 100000)});
    m.sufs.push_back(s);
  }
  if (R(0, 3) == 0) { for (int i = 0; i < m.nv; ++i) m.vnames.push_back("x[" + std::to_string(i) + "]"); for (int i = 0; i < ncon + nlcon + nobj; ++i) m.cnames.push_back("c['" + std::to_string(i) + " a']"); }
  m.comments = R(0, 2); m.bounds_first = R(0, 3) != 0; m.colsizes = R(0, 3);
  return m;
}

// ---------------------------------------------------------------- (de)serialisation of a case
static void putE(std::ostream& o, const E& e) { o << "E " << e.op << " " << dstr(e.num) << " " << e.var << " " << hexs(e.str) << " " << e.pl.size(); for (double d : e.pl) o << " " << dstr(d); o << " " << e.kids.size() << "\n"; for (auto& k : e.kids) putE(o, k); }
static E getE(std::istream& i) { E e; std::string t, v, s; size_t np, nk; i >> t >> e.op >> v >> e.var >> s >> np; e.num = strtod(v.c_str(), 0); e.str = unhex(s); e.pl.resize(np); for (auto& d : e.pl) { i >> v; d = strtod(v.c_str(), 0); } i >> nk; for (size_t k = 0; k < nk; ++k) e.kids.push_back(getE(i)); return e; }
static void putL(std::ostream& o, const Lin& l) { o << l.size(); for (auto& t : l) o << " " << t.first << " " << dstr(t.second); o << "\n"; }
static Lin getL(std::istream& i) { size_t n; i >> n; Lin l(n); for (auto& t : l) { std::string v; i >> t.first >> v; t.second = strtod(v.c_str(), 0); } return l; }
static void save(const Model& m, const std::string& path) {
  std::ofstream o(path);
  o << m.nv; for (int c : m.cls) o << " " << c; o << " " << m.comments << " " << m.bounds_first << " " << m.colsizes << "\n";
  for (int i = 0; i < m.nv; ++i) o << dstr(m.lb[i]) << " " << dstr(m.ub[i]) << "\n";
  o << m.funcs.size() << "\n"; for (auto& f : m.funcs) o << hexs(f.name) << " " << f.nargs << " " << f.type << "\n";
  o << m.dvs.size() << "\n"; for (auto& d : m.dvs) { o << d.group << " "; putL(o, d.lin); putE(o, d.expr); }
  o << m.cons.size() << "\n"; for (auto& c : m.cons) { o << dstr(c.L) << " " << dstr(c.U) << " " << c.k << " " << c.cvar << " "; putL(o, c.lin); putE(o, c.expr); }
  o << m.lcons.size() << "\n"; for (auto& e : m.lcons) putE(o, e);
  o << m.objs.size() << "\n"; for (auto& ob : m.objs) { o << ob.sense << " "; putL(o, ob.lin); putE(o, ob.expr); }
  putL(o, Lin(m.ig.begin(), m.ig.end())); putL(o, Lin(m.idg.begin(), m.idg.end()));
  o << m.sufs.size() << "\n"; for (auto& s : m.sufs) { o << hexs(s.name) << " " << s.kind << " "; putL(o, Lin(s.vals.begin(), s.vals.end())); }
  o << m.vnames.size() << " " << m.cnames.size() << "\n"; for (auto& s : m.vnames) o << hexs(s) << "\n"; for (auto& s : m.cnames) o << hexs(s) << "\n";
}
static Model load(const std::string& path) {
  std::ifstream i(path); Model m; std::string a, b; size_t n, n2;
  i >> m.nv; for (int& c : m.cls) i >> c; i >> m.comments >> m.bounds_first >> m.colsizes;
  for (int k = 0; k < m.nv; ++k) { i >> a >> b; m.lb.push_back(strtod(a.c_str(), 0)); m.ub.push_back(strtod(b.c_str(), 0)); }
  i >> n; for (size_t k = 0; k < n; ++k) { Func f; i >> a >> f.nargs >> f.type; f.name = unhex(a); m.funcs.push_back(f); }
  i >> n; for (size_t k = 0; k < n; ++k) { DefVar d; i >> d.group; d.lin = getL(i); d.expr = getE(i); m.dvs.push_back(d); }
  i >> n; for (size_t k = 0; k < n; ++k) { Con c; i >> a >> b >> c.k >> c.cvar; c.L = strtod(a.c_str(), 0); c.U = strtod(b.c_str(), 0); c.lin = getL(i); c.expr = getE(i); m.cons.push_back(c); }
  i >> n; for (size_t k = 0; k < n; ++k) m.lcons.push_back(getE(i));
  i >> n; for (size_t k = 0; k < n; ++k) { Obj o; i >> o.sense; o.lin = getL(i); o.expr = getE(i); m.objs.push_back(o); }
  { Lin l = getL(i); m.ig.assign(l.begin(), l.end()); l = getL(i); m.idg.assign(l.begin(), l.end()); }
  i >> n; for (size_t k = 0; k < n; ++k) { Suf s; i >> a >> s.kind; s.name = unhex(a); Lin l = getL(i); s.vals.assign(l.begin(), l.end()); m.sufs.push_back(s); }
  i >> n >> n2; for (size_t k = 0; k < n; ++k) { i >> a; m.vnames.push_back(unhex(a)); } for (size_t k = 0; k < n2; ++k) { i >> a; m.cnames.push_back(unhex(a)); }
  return m;
}
static void kinds_in(const E& e, std::set<int>& s) { s.insert(e.op); for (auto& k : e.kids) kinds_in(k, s); }

#ifndef NLW_SHIM_AS_LIBRARY
int main(int argc, char** argv) {
  std::string mode = argc > 1 ? argv[1] : "rc";
  char tmpl[] = "/var/tmp/nlwXXXXXX"; if (!mkdtemp(tmpl)) return 2; g_dir = tmpl;
  auto cleanup = [&]() { for (int b = 0; b < 2; ++b) for (const char* ext : {".nl", ".col", ".row", ".fix", ".slc", ".unv", ".adj"}) unlink((g_dir + "/m" + std::to_string(b) + ext).c_str()); rmdir(g_dir.c_str()); };
  if (mode == "replay" && argc > 2) {
    Model m = load(argv[2]); std::string r = roundtrip(m); cleanup();
    if (!r.empty()) { printf("FAIL %s\n", r.c_str()); return 1; }
    printf("OK\n"); return 0;
  }
  unsigned long cases = 0, nontrivial = 0; std::set<int> kinds; std::set<size_t> distinct; std::map<std::string, unsigned long> lab;
  std::vector<std::string> samples; std::string last_fail; const char* failp = getenv("NLW_FAIL");
  bool ok = rc::check("NL write/read round trip", [&]() {
    Model m = gen_model();
    ++cases;
    std::string r = roundtrip(m);
    std::set<int> ks; for (auto& c : m.cons) kinds_in(c.expr, ks); for (auto& e : m.lcons) kinds_in(e, ks); for (auto& o : m.objs) kinds_in(o.expr, ks); for (auto& d : m.dvs) kinds_in(d.expr, ks);
    kinds.insert(ks.begin(), ks.end());
    lab[m.comments ? "comments" : "no-comments"]++; lab[m.bounds_first ? "bounds-first" : "bounds-last"]++; lab["colsizes-" + std::to_string(m.colsizes)]++;
    lab["with-defvars"] += !m.dvs.empty(); lab["with-suffixes"] += !m.sufs.empty(); lab["with-complementarity"] += std::any_of(m.cons.begin(), m.cons.end(), [](const Con& c) { return c.k != 0; }); lab["with-names"] += !m.vnames.empty();
    bool nt = ks.size() >= 6 && (!m.dvs.empty() || !m.sufs.empty()) && m.cons.size() + m.lcons.size() >= 2;
    if (nt) { ++nontrivial; std::ostringstream k; k << m.nv << expect(m.cons.empty() ? m.lcons[0] : m.cons[0].expr) << m.sufs.size() << m.dvs.size() << m.objs.size(); distinct.insert(std::hash<std::string>()(k.str())); }
    if (samples.size() < 3 && nt) samples.push_back(("vars=" + std::to_string(m.nv) + " cons=" + std::to_string(m.cons.size()) + "+" + std::to_string(m.lcons.size()) + " objs=" + std::to_string(m.objs.size()) + " defvars=" + std::to_string(m.dvs.size()) + " sufs=" + std::to_string(m.sufs.size()) + " first: " + expect(m.cons.empty() ? m.lcons[0] : m.cons[0].expr)).substr(0, 300));
    if (!r.empty()) { last_fail = r; if (failp) save(m, failp); }
    RC_ASSERT(r.empty());
  });
  cleanup();
  printf("{\"ok\":%s,\"cases\":%lu,\"nontrivial\":%lu,\"distinct_nontrivial\":%zu,\"node_kinds_seen\":%zu,\"labels\":{", ok ? "true" : "false", cases, nontrivial, distinct.size(), kinds.size());
  bool first = true; for (auto& kv : lab) { printf("%s\"%s\":%lu", first ? "" : ",", kv.first.c_str(), kv.second); first = false; }
  printf("},\"fail\":\"");
  for (char ch : last_fail) { if (ch == '"' || ch == '\\') printf("\\%c", ch); else if ((unsigned char)ch < 32 || (unsigned char)ch > 126) printf("?"); else putchar(ch); }
  printf("\",\"samples\":[");
  for (size_t i = 0; i < samples.size(); ++i) { printf("%s\"", i ? "," : ""); for (char ch : samples[i]) { if (ch == '"' || ch == '\\') printf("\\%c", ch); else if ((unsigned char)ch < 32 || (unsigned char)ch > 126) printf("?"); else putchar(ch); } printf("\""); }
  printf("]}\n");
  return 0;
}
#endif  // NLW_SHIM_AS_LIBRARY
