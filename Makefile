# Builds the verification machinery from /repo's *current working tree*.
# Every check calls `make -C /verif <targets>` first; -MMD dependency files make the
# build incremental, so an edit anywhere under /repo rebuilds exactly what depends on it.
REPO ?= /repo
B    := build
J    ?= 16

DEFS := -DMP_DATE=20240320 -DMP_SYSINFO='"Linux x86_64"' -DMP_USE_ATOMIC -DMP_USE_HASH -DMP_USE_UNIQUE_PTR
INCS := -I$(REPO)/include -I$(REPO)/src -I$(REPO)/nl-writer2/include
WARN := -w
SAN  := -fsanitize=address,undefined -fno-sanitize=vptr -fno-sanitize-recover=undefined -fno-omit-frame-pointer

CXX_G   := g++
CXX_C   := clang++
STD     := -std=c++17

# flavour flags
F_prod  := $(CXX_G) $(STD) -O1 -g1 -DNDEBUG $(SAN) $(DEFS) $(INCS) $(WARN)
F_dbg   := $(CXX_G) $(STD) -O1 -g1 $(SAN) $(DEFS) $(INCS) $(WARN)
F_hooks := $(CXX_G) $(STD) -O1 -g1 -DNDEBUG -DMP_VERIF_HOOKS $(SAN) $(DEFS) $(INCS) $(WARN)
F_fuzz  := $(CXX_C) $(STD) -O1 -g -DNDEBUG -fsanitize=fuzzer-no-link,address,undefined -fno-sanitize-recover=undefined $(DEFS) $(INCS) $(WARN)
F_vd    := $(CXX_C) $(STD) -O0 -g1 -DNDEBUG $(SAN) $(DEFS) $(INCS) $(WARN)
F_plain := $(CXX_G) $(STD) -O2 -g1 -DNDEBUG $(DEFS) $(INCS) $(WARN)

MP_SRC := src/expr.cc src/nl-reader.cc src/option.cc src/os.cc src/problem.cc src/rstparser.cc \
          src/sol.cc src/solver.cc src/sp.cc src/std_constr.cc src/utils_file.cc src/utils_string.cc \
          src/utils_clock.cc src/format.cc src/posix.cc src/expr-info.cc \
          src/mp/flat/encodings.cpp src/mp/flat/piecewise_linear.cpp
NLW_SRC := nl-writer2/src/dtoa.cc nl-writer2/src/nl-model-c.cc nl-writer2/src/nl-solver-c.cc \
          nl-writer2/src/nl-solver.cc nl-writer2/src/nl-utils.cc nl-writer2/src/nl-writer2.cc

objs = $(addprefix $(B)/$(1)/,$(addsuffix .o,$(2)))

define FLAVOUR
$(B)/$(1)/%.o: $(REPO)/% Makefile
	@mkdir -p $$(dir $$@)
	$$(F_$(1)) -MMD -MP -c $$< -o $$@
$(B)/$(1)/libmp.a: $(call objs,$(1),$(MP_SRC))
	@rm -f $$@; ar rcs $$@ $$^
$(B)/$(1)/libnlw2.a: $(call objs,$(1),$(NLW_SRC))
	@rm -f $$@; ar rcs $$@ $$^
# shims of this flavour: shims/<name>.cc -> build/<flavour>/<name>
$(B)/$(1)/%: shims/%.cc $(B)/$(1)/libmp.a $(B)/$(1)/libnlw2.a
	@mkdir -p $$(dir $$@)
	$$(F_$(1)) -Ishims -MMD -MP -MF $$@.d $$< -o $$@ $(B)/$(1)/libmp.a $(B)/$(1)/libnlw2.a $$(LIBS_$$(notdir $$@)) -ldl
endef
$(foreach f,prod dbg hooks plain vd,$(eval $(call FLAVOUR,$(f))))

# fuzz flavour: objects with fuzzer-no-link, targets linked with -fsanitize=fuzzer
$(B)/fuzz/%.o: $(REPO)/% Makefile
	@mkdir -p $(dir $@)
	$(F_fuzz) -MMD -MP -c $< -o $@
$(B)/fuzz/libmp.a: $(call objs,fuzz,$(MP_SRC))
	@rm -f $@; ar rcs $@ $^
$(B)/fuzz/libnlw2.a: $(call objs,fuzz,$(NLW_SRC))
	@rm -f $@; ar rcs $@ $^
$(B)/fuzz/%: fuzz/%.cc $(B)/fuzz/libmp.a $(B)/fuzz/libnlw2.a
	@mkdir -p $(dir $@)
	$(CXX_C) $(STD) -O1 -g -DNDEBUG -fsanitize=fuzzer,address,undefined -fno-sanitize-recover=undefined \
	  $(DEFS) $(INCS) $(WARN) -Ishims -MMD -MP -MF $@.d $< -o $@ $(B)/fuzz/libmp.a $(B)/fuzz/libnlw2.a -ldl

LIBS_safeint_check := -lrapidcheck
LIBS_gsl_shim := -Ishims/asl_stub -lrapidcheck -lgsl -lgslcblas -lm

# vdriver: three TUs (the converter instantiation dominates), clang -O0 ASan+UBSan: ~95 s instead of 5.5 min
VD_OBJS := $(B)/vd/shimobj/vdriver.o $(B)/vd/shimobj/vd_connect.o $(B)/vd/shimobj/vd_mm.o
$(B)/vd/shimobj/%.o: shims/%.cc Makefile
	@mkdir -p $(dir $@)
	$(F_vd) -Ishims -MMD -MP -c $< -o $@
$(B)/vd/vdriver: $(VD_OBJS) $(B)/vd/libmp.a
	$(F_vd) $(VD_OBJS) -o $@ $(B)/vd/libmp.a -ldl

# header-only checks that gain nothing from ASan (C17): UBSan only, no libmp
$(B)/ub/%: shims/%.cc Makefile
	@mkdir -p $(dir $@)
	$(CXX_G) $(STD) -O2 -g1 -DNDEBUG -fsanitize=undefined -fno-sanitize-recover=undefined $(DEFS) $(INCS) $(WARN) \
	  -MMD -MP -MF $@.d $< -o $@ $(LIBS_$(notdir $@))

# ---- target groups (one per check; `all` is the setup_cmd) ----
SHIMS_prod  :=
SHIMS_dbg   :=
SHIMS_hooks :=
SHIMS_plain :=
FUZZERS     :=
-include targets.mk

ALL := $(VDRIVER) $(addprefix $(B)/ub/,$(SHIMS_ub)) $(addprefix $(B)/prod/,$(SHIMS_prod)) $(addprefix $(B)/dbg/,$(SHIMS_dbg)) \
       $(addprefix $(B)/hooks/,$(SHIMS_hooks)) $(addprefix $(B)/plain/,$(SHIMS_plain)) \
       $(addprefix $(B)/fuzz/,$(FUZZERS))

all: $(ALL)

clean:
	rm -rf $(B)

.PHONY: all clean
.SECONDARY:
.DELETE_ON_ERROR:

-include $(shell find $(B) -name '*.d' 2>/dev/null)
