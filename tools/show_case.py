#!/usr/bin/env python3-vt
"""Pretty-print a C01-style replay file: NL model, configuration, delivered model."""
import sys, json
sys.path.insert(0, '/verif')
from verif import nl, conv, flat
from fractions import Fraction as F

def term(cs, vs): return " ".join("%+g*x%d" % (float(c), v) for c, v in zip(cs, vs)) or "0"
def alg(d):
    a = flat._alg(d)
    s = term(a['coefs'], a['vars'])
    if a['qcoefs']: s += " " + " ".join("%+g*x%d*x%d" % (float(c), i, j) for c, i, j in zip(a['qcoefs'], a['qvars1'], a['qvars2']))
    k = a['cmp']
    if k == -2: return s + " < %s" % a['ub']
    if k == 2: return s + " > %s" % a['lb']
    return "%s <= %s <= %s" % (a['lb'], s, a['ub'])
def expr(d):
    return term([F(flat.hx(c)) for c in d['coefs']], d['vars']) + (" q:" + str(d.get('qcoefs')) if d.get('qcoefs') else "") + " + %s" % flat.hx(d['const'])
def show_flat(fm):
    for i in range(fm.nvars):
        print("  x%d %s [%s, %s]%s" % (i, "int" if fm.type[i] else "real", fm.lb[i], fm.ub[i], " '%s'" % fm.names[i] if fm.names else ""))
    for o in fm.objs:
        print("  obj%d %s: %s %s" % (o['i'], "max" if o['sense'] else "min", term(o['coefs'], o['vars']), o['qcoefs'] or ""))
    for c in fm.cons:
        d = c.d
        if c.kind == 'alg': s = alg(d)
        elif c.kind == 'indicator': s = "x%d==%d ==> %s" % (d['bin_var'], d['bin_val'], alg(d['con']))
        elif c.kind == 'cond': s = "x%d <==> (%s) ctx=%d" % (d['res_var'], alg(d['con']), d['ctx'])
        elif c.kind in ('linfunc', 'quadfunc'): s = "x%d = %s ctx=%d" % (d['res_var'], expr(d['expr']), d['ctx'])
        elif c.kind == 'func': s = "x%d = %s(%s; %s) ctx=%d" % (d['res_var'], c.type, d['args'], d['params'], d['ctx'])
        elif c.kind == 'sos': s = "SOS%d vars=%s w=%s" % (d['sos_type'], d['vars'], [flat.hx(w) for w in d['weights']])
        elif c.kind == 'compl': s = "x%d complements %s" % (d['compl_var'], expr(d['expr']))
        else: s = str(d)
        print("  [%s] %s" % (c.type, s))

if __name__ == "__main__":
    c = json.load(open(sys.argv[1])); n = nl.model_from_obj(c['model'])
    print("NL:", nl.show_model(n))
    print("acc:", c['acc']['mode'], "default", c['acc']['default'], {k: v for k, v in c['acc']['levels'].items() if v}, "quadobj", c['acc']['quadobj'], "opts", c['opts'])
    print("point:", c.get('point'), "nl_feasible:", c.get('nl_feasible'))
    r = conv.convert(n, c['acc'], c['opts'])
    print("rc", r.rc, r.err[:300])
    if r.sol: print("sol msg:", r.sol.message[:6], "code", r.sol.code)
    if r.dump: show_flat(r.dump)
    if '-nl' in sys.argv: print(nl.emit(n).decode())
