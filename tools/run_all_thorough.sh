#!/bin/bash
# Runs every thorough tier once, sequentially (each uses all 16 cores); prints one summary line per check.
cd "$(dirname "$0")/.."
if [ -n "$VP_RUN_REPO" ]; then      # inside `vp run --with-repo`: use the repo snapshot; the two generated, git-ignored sources come from /repo
  export VERIF_REPO=$VP_RUN_REPO
  cp -n /repo/src/expr-info.cc $VP_RUN_REPO/src/ 2>/dev/null; cp -n /repo/nl-writer2/include/mp/nl-opcodes.h $VP_RUN_REPO/nl-writer2/include/mp/ 2>/dev/null
fi
for id in C17 C18 C03 C05 C08 C13 C16 C15 C11 C10 C02 C14 C01 C04 C06 C07 C09 C12 C19 C20; do
  s=$(date +%s)
  out=$(./check $id --tier thorough 2>&1); rc=$?
  echo "$id rc=$rc $(( $(date +%s) - s ))s $(echo "$out" | grep -E 'tier=' | tail -1 | cut -c1-160)"
  echo "$out" | grep -E -A 14 "HARNESS" | head -20; echo "$out" | grep -E "^VIOLATION" | head -5
  echo "$out" | grep -A1 "^VIOLATION" | grep -v "^VIOLATION\|^--" | head -3 | cut -c1-400
done
