#!/usr/bin/env python3-vt
"""Seed corpus for fuzz_solread: 3 control bytes + valid .sol files (text and binary, with/without options, suffixes, tables)."""
import hashlib, os, struct, sys, random
sys.path.insert(0, '/verif')
from verif import solfile
OUT = '/verif/corpus/C14'
rnd = random.Random(14)

def rec(b):
    return struct.pack('<I', len(b)) + b + struct.pack('<I', len(b))

def binary_sol(message, options, ncons, nvars, duals, primals, objno, code, suffixes):
    out = rec(b'binary')
    for line in message:
        out += rec(line.encode())
    out += struct.pack('<II', 0, 0)
    if options is not None:
        body = b'Options' + struct.pack('<%di' % (len(options) + 1), len(options), *options) + struct.pack('<4i', ncons, len(duals), nvars, len(primals))
        out += rec(body)
    out += rec(struct.pack('<%dd' % len(duals), *duals))
    out += rec(struct.pack('<%dd' % len(primals), *primals))
    out += rec(struct.pack('<2i', objno, code))
    for s in suffixes:
        name = s['name'].encode() + b'\0'
        tab = (s.get('table') or '').encode()
        tab = tab + b'\0' if tab else b''
        head = b'\nSuffix\n' + struct.pack('<4i', s['kind'], len(s['values']), len(name), len(tab))
        body = head + name + tab
        for k, v in sorted(s['values'].items()):
            body += struct.pack('<i', k) + (struct.pack('<d', float(v)) if s['kind'] & 4 else struct.pack('<i', int(v)))
        out += rec(body)
    return out

n = 0
def save(ctl, b):
    global n
    d = bytes(ctl) + b
    open(os.path.join(OUT, hashlib.sha1(d).hexdigest()[:16]), 'wb').write(d); n += 1

for k in range(60):
    nv, nc = rnd.choice([0, 1, 2, 3, 7]), rnd.choice([0, 1, 3])
    msg = rnd.choice([["solver: optimal"], ["solver 1.0: optimal solution; objective 42", "3 iterations"], ["\b\b\bx: done", " ", "more"], ["a" * 300]])
    opts = rnd.choice([[1, 1, 0], [0, 1, 0], [1, 0, 1, 4, 5], None])
    duals = [rnd.choice([0.0, 1.5, -2.25, 1e-300, 1e300]) for _ in range(rnd.choice([0, nc]))]
    prim = [rnd.choice([0.0, 1.0, 0.1, -7.5, 123456789.125]) for _ in range(rnd.choice([0, nv]))]
    sufs = []
    if rnd.random() < 0.6 and nv:
        sufs.append(dict(kind=0, name="sstatus", values={i: rnd.randint(0, 6) for i in range(nv)}, table=rnd.choice([None, "0\tnone\tno status\n1\tbas\tbasic"])))
    if rnd.random() < 0.4:
        sufs.append(dict(kind=7, name="bestbound", values={0: 3.75}))
    if rnd.random() < 0.3 and nc:
        sufs.append(dict(kind=1, name="iis", values={0: 1}))
    ctl = (5, 5, k % 64) if k % 3 else (k % 6, (k // 6) % 6, k % 64)
    if opts is None:
        txt = "\n".join(msg) + "\n\n" + "".join("%r\n" % d for d in duals) + "".join("%r\n" % p for p in prim) + "objno 0 %d\n" % (k * 17 % 600)
        if len(duals) == nc and len(prim) == nv:
            save(ctl, txt.encode())
    else:
        save(ctl, solfile.write(msg, opts, nc, nv, duals, prim, 0, k * 17 % 600, sufs).encode())
    save(ctl, binary_sol(msg, opts if opts else [1, 1, 0], nc, nv, duals, prim, 0, k * 17 % 600, sufs))
print(n, "seeds")
