#!/bin/bash
# usage: sweep_seeds.sh <seed>...   -- runs every quick tier with each given VERIF_SEED; prints one line per run (used to look for false alarms / flakiness)
cd "$(dirname "$0")/.."
for seed in "$@"; do
  for id in C01 C02 C03 C04 C05 C06 C07 C08 C09 C10 C11 C12 C13 C14 C15 C16 C17 C18 C19 C20; do
    out=$(VERIF_SEED=$seed ./check $id --tier quick 2>&1); rc=$?
    echo "seed=$seed $id rc=$rc $(echo "$out" | grep -E 'tier=' | tail -1 | cut -c1-150)"
    echo "$out" | grep -A1 "^VIOLATION" | head -6 | cut -c1-500
  done
done
