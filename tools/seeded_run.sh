#!/bin/bash
# usage: seeded_run.sh <ID> [tier]  -- applies /verif/seeded/<ID>*/patch.diff to /repo, runs the check of that property, reverts.
D=$1; ID=${D%%-*}; TIER=${2:-quick}
/verif/tools/mutant_run.sh /verif/seeded/$D/patch.diff $ID $TIER
