#!/bin/bash
# Rebuild /repo/_build (guard OFF) and run the repository's own suite the way BASELINE.json does;
# then compare the passing gtest cases with BASELINE.json's stable_pass list.
set -e
REPO=${1:-/repo}
cmake --build $REPO/_build -j16 >/dev/null 2>&1 || { echo "BUILD FAILED"; exit 1; }
S=$(mktemp -d /var/tmp/baseline.XXXXXX); cd $S
ctest --test-dir $REPO/_build -j8 --timeout 900 --output-junit $S/junit.xml >/dev/null 2>&1 || true
# per-case results: run every registered gtest binary with xml output
for t in $REPO/_build/bin/*-test; do
  n=$(basename $t); (cd $S && timeout 900 $t --gtest_output=xml:$S/$n.xml >/dev/null 2>&1 || true)
done
python3 - "$S" <<'PY'
import sys,glob,json,xml.etree.ElementTree as ET
S=sys.argv[1]
base=json.load(open('/root/.vp/BASELINE.json'))
passed=set()
for f in glob.glob(S+'/*-test.xml'):
    try: root=ET.parse(f).getroot()
    except Exception: continue
    for tc in root.iter('testcase'):
        ok = not any(c.tag in ('failure','error') for c in tc) and tc.get('status','run')!='notrun'
        if ok: passed.add(tc.get('classname')+'::'+tc.get('name'))
try:
    root=ET.parse(S+'/junit.xml').getroot()
    for tc in root.iter('testcase'):
        if tc.get('status')=='run' and not any(c.tag in('failure','error') for c in tc):
            passed.add(tc.get('name')+'::'+tc.get('name'))
except Exception as e: pass
missing=[t for t in base['stable_pass'] if t not in passed and t not in base.get('flaky',[])]
print("stable_pass=%d passed_now=%d missing=%d"%(len(base['stable_pass']),len(passed),len(missing)))
for m in missing[:40]: print("  MISSING",m)
sys.exit(1 if missing else 0)
PY
rc=$?
rm -rf $S
exit $rc
