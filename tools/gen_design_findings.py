#!/usr/bin/env python3
"""Regenerates the two tables of DESIGN.md section 6 (6.1 repaired, 6.2 recorded) from KNOWN_FINDINGS.jsonl."""
import json, os, re
root = os.path.dirname(os.path.dirname(os.path.abspath(__file__)))
rows = []
for l in open(os.path.join(root, "KNOWN_FINDINGS.jsonl")):
    if l.startswith("#") or not l.strip():
        continue
    j = json.loads(l)
    what = j["what"]
    if what.startswith("fixed:"):
        what = what.split(" ", 3)[3]
    rows.append((j["property"], j["status"], j.get("commit", ""), j["key"], what, j.get("site", ""), j.get("signature") or j.get("example", "")))
rows.sort()
esc = lambda t: t.replace("|", "/").replace("\n", " ")
fixed = [r for r in rows if r[1] == "fixed"]
known = [r for r in rows if r[1] == "known"]
t1 = "| prop | commit | site | what failed |\n|---|---|---|---|\n" + "".join("| %s | `%s` | %s | %s |\n" % (r[0], r[2], esc(r[5])[:90], esc(r[4])) for r in fixed)
t2 = ("| prop | key | site | what fails, and why it is not repaired here | how the check recognises it (signature) |\n|---|---|---|---|---|\n"
      + "".join("| %s | `%s` | %s | %s | %s |\n" % (r[0], r[3], esc(r[5])[:80], esc(r[4]), esc(r[6])[:400]) for r in known))
p = os.path.join(root, "DESIGN.md"); s = open(p).read()
a = s.index("| prop | commit | site | what failed |"); b = s.index("\n\n", a)
s = s[:a] + t1.rstrip("\n") + s[b:]
a = s.index("| prop | key | site | what fails, and why it is not repaired here |"); b = s.index("\n\n", a)
s = s[:a] + t2.rstrip("\n") + s[b:]
s = re.sub(r"### 6\.1 Repaired \(`fix:` commits in /repo, \d+ root causes\)", "### 6.1 Repaired (`fix:` commits in /repo, %d root causes)" % len(fixed), s)
s = re.sub(r"### 6\.2 Recorded, not repaired \(`known`, \d+ root causes\)", "### 6.2 Recorded, not repaired (`known`, %d root causes)" % len(known), s)
open(p, "w").write(s)
print(len(fixed), "fixed,", len(known), "known")
