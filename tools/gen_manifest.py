#!/usr/bin/env python3
"""Generates MANIFEST.json from the table below (keeps it valid against the schema)."""
import json, os, sys
ROOT = os.path.dirname(os.path.dirname(os.path.abspath(__file__)))

CHECKS = {
 "C01": dict(level="exploration", engine="hypothesis+z3", design="3/C01",
   technique="Hypothesis-generated NL models x acceptance tables x cvt options through the real flattener/converter into a recording ModelAPI; "
             "exact reference evaluator vs z3 exists-auxiliary oracle on every grid point; shrinking to a replay file",
   text="Small-scope generated models of the exact-operator fragment are converted under generated native-acceptance tables and options; for every "
        "point of the gridded original domain the NL model's truth (exact rationals) is compared with satisfiability of the delivered model "
        "over the auxiliary variables (z3), and objective values are compared. Refusals must carry a diagnostic; infeasibility claims are checked.",
   note="trusts z3, my NL emitter/evaluator, the documented meaning of each flat constraint type; models have <= 4 variables"),
 "C17": dict(level="exploration", engine="enumeration+rapidcheck", design="3/C17",
   technique="complete enumeration of 8/16-bit operand pairs + boundary sets + rapidcheck random pairs against an __int128 oracle, UBSan on",
   text="All int8/uint8 operand pairs (thorough: all 2^32 16-bit pairs) for + - * and the narrowing constructor are enumerated; "
        "int/unsigned/long/size_t/long long get boundary x boundary pairs and random pairs. Exact for the narrow instantiations of the same "
        "templates, sampling for the wide ones.",
   note="trusts g++ __int128; transfer from 16-bit to wide instantiations rests on the shared template source plus boundary/random sampling"),
}

CHECKS.update({
 "C10": dict(level="exploration", engine="enumeration", design="3/C10",
   technique="complete enumeration of codes -200..999 x presence of primal/dual/objective through the real backend, against the documented range table",
   text="The six range predicates are evaluated for all 1200 codes (exhaustive) and 9600 full driver runs with a scripted solver check the "
        "solve message ('objective' iff a solution candidate is indicated and supplied), the code echoed in the .sol file and the -! table; "
        "1200 further runs end through StdBackend::Abort(code, text) and must carry that code (judged from 100 up).",
   note="range table transcribed from doc/source/features-guide.rst; 100-199 treated as don't-care for the objective clause"),
 "C12": dict(level="exploration", engine="hypothesis+z3", design="3/C12",
   technique="Hypothesis-generated multi-objective NL files x objno x multiobj x text/binary; delivered objectives compared as functions (z3) with the selected NL objectives",
   text="Generated models with 0..4 tagged objectives are run with every objno/multiobj combination; the objectives the ModelAPI received must be "
        "exactly the selected ones (count, order, sense, value at every feasible grid point), objno > N must be rejected without solving, "
        "and the .sol objno line must name the objective used.",
   note="same trusted base as C01; 'both objno and multiobj given' accepts either documented behaviour"),
})

CHECKS.update({
 "C09": dict(level="exploration", engine="hypothesis", design="3/C09",
   technique="Hypothesis-generated driver runs (models of every operator mix, corrupted NL bytes, option strings, name files, scripted solver answers, unwritable .sol) judged by an independent .sol parser and outcome classes",
   text="Each generated run of the real driver must end in a complete, dimensionally right .sol (failure code 200-299/500-999 plus message when the solver was "
        "never reached) or in a non-zero exit with a message; crashes, sanitizer reports, malformed or dimensionally wrong .sol files, silent exits and "
        "failures reported with a 'solved' code are violations. Guard expiry and allocator-limit aborts are inconclusive.",
   note="termination is not decided by testing; disk-full faults cannot be injected in this sandbox"),
})

CHECKS.update({
 "C04": dict(level="exploration", engine="hypothesis", design="3/C04",
   technique="Hypothesis stateful-style histories of presolve/postsolve calls on one converted model, run in two orders; tag-identified images of linear constraints; documented slack mapping as oracle",
   text="Generated models with uniquely tagged linear constraints (range/<=/>=/=) behind nonlinear and logical items are converted under acceptance "
        "tables that keep range rows or turn them into equality+slack; a generated history of 4-12 direct value-presolver calls (solution, basis, IIS, "
        "generic int/dbl, lazy flags; both directions) runs inside the scripted solver. Checked: shapes, variable j <-> delivered variable j, linear "
        "constraint <-> its row with the range_con.h slack mapping (generic value kinds with signed values and zeros: largest among the non-zero values of row and slack, the rule documented at ValueNode::SetNum), inbound values on the images, and identical results for every call in a second, "
        "differently ordered history.",
   note="nothing is asserted for values of nonlinear/logical constraints; images are found by tag coefficients, not via mp's link graph"),
 "C19": dict(level="exploration", engine="hypothesis", design="3/C19",
   technique="Hypothesis-generated models x cvt:names modes x .col/.row files (absent, short, CRLF, AMPL-style quoting) x SOS sets declared by suffixes (.sosno/.ref, .sos/.sosref) x acceptance; name invariants on the recorded ModelAPI calls",
   text="On everything the ModelAPI received: no names unless requested; otherwise every variable/constraint/objective name non-empty, unique per class, "
        "original variables carry the file or generic name, auxiliary names derive from an original item's name or from the label of a suffix-declared SOS set.",
   note="one recorded known finding (derived-name collisions of sibling items) is counted and skipped; 'derived' = has an original name as prefix"),
 "C20": dict(level="exploration", engine="hypothesis", design="3/C20",
   technique="Hypothesis-generated conversions with cvt:writegraph and hostile names; strict JSON parse plus completeness/consistency invariants against the recorded ModelAPI calls",
   text="Every exported line must be strict JSON; all NL and delivered items present; exactly one status record per created constraint saying exactly "
        "one of unused/reformulated/delivered; link records within the sizes of the node classes; the set marked final equals the constraints delivered.",
   note="Python json with NaN/Infinity rejected defines validity; short type names reconstructed from acc: option names"),
})

CHECKS.update({
 "C06": dict(level="exploration", engine="hypothesis", design="3/C06",
   technique="Hypothesis-generated objective expressions over generated argument boxes, accept-all ModelAPI; every delivered functional constraint is sampled and evaluated by an independent reference (exact / libm) against the result variable's bounds and type",
   text="For each functional constraint the recording ModelAPI receives, argument points are drawn from the delivered argument boxes and the function "
        "value must lie within the result variable's bounds (tolerance 1e-9 relative) and be integral if the variable is declared integer.",
   note="objective-only models so that no root constraint narrows a result; arguments of domain-restricted functions (log, fractional powers, ...) are not judged"),
 "C07": dict(level="exploration", engine="hypothesis", design="3/C07",
   technique="Hypothesis-generated (model, grid point, single damage far above/below tolerance, check options); two-run protocol with the scripted solver returning the exact forward-evaluated candidate; reference evaluator decides the expected verdict",
   text="The candidate consists of a grid point and the exact values of all expressions; it is left intact or damaged in one way (bound, integrality, "
        "expression value) by 2^-6 or 2^-40, or one integer variable (original or auxiliary) is moved by 2^-24, inside the integrality tolerance, which must not change the verdict. The 'Tolerance violations' warning and solve code 150 under sol:chk:fail must appear iff the NL model is "
        "violated at the point or the damage is far above tolerance.",
   note="accept-all configuration; no objectives; the tolerance band between the two margins is not generated (don't-care)"),
})

CHECKS.update({
 "C02": dict(level="exploration", engine="libFuzzer", design="3/C02",
   technique="coverage-guided fuzzing (libFuzzer, ASan+UBSan) of ReadNLString/ReadNLFile with the oracle inside the target: validating recording handler, mp::Problem and null handlers, bounds-first flag, string-vs-file differential at page-multiple sizes; plus generated targeted corruptions",
   text="About 4 million executions per quick run from a seed corpus of generated valid text/binary/byte-swapped NL files. The target aborts when a callback "
        "is inconsistent with the announced header, an announced count is not delivered, EndInput is misplaced, the two read paths disagree, or a sanitizer "
        "fires; artifacts are confirmed by three replays.",
   note="input length <= 6000 bytes; allocation-limit aborts and slow units are load noise; one recorded finding (unbounded recursion depth) is probed by a fixed input"),
 "C05": dict(level="exploration", engine="rapidcheck", design="3/C05",
   technique="rapidcheck-generated solutions -> mp::WriteSolFile -> mp::SOLReader2 round trip compared under the stated tolerances; shrunk failures saved as replay files",
   text="160 short rapidcheck campaigns per quick run (every 4th with +-Inf/NaN) cover message text, 3..9 options, present/absent/shorter vectors, boundary "
        "and 17-digit doubles, suffixes of all kinds with tables. Three recorded findings are excluded by construction and probed by fixed inputs.",
   note="the reader is given the true dimensions; CR before LF in message lines is not compared"),
 "C14": dict(level="exploration", engine="libFuzzer", design="3/C14",
   technique="coverage-guided fuzzing (libFuzzer, ASan+UBSan) of SOLReader2::ReadSOLFile with varied declared sizes and partial-read handlers; oracle inside the target",
   text="The target aborts on an undocumented result code, an error without message, an escaping exception, a vector longer than the declared problem size, "
        "or an overall OK after a vector that failed or was left unread; sanitizer reports count as violations.",
   note="std::bad_alloc on hostile lengths counts as refusal; input reaches fopen() through a memfd path"),
})

CHECKS.update({
 "C18": dict(level="exploration", engine="rapidcheck", design="3/C18",
   technique="rapidcheck-generated expression-tree specifications built several times in one mp::ExprFactory (independent copies, single-point mutants, "
             "mutant chains, unrelated trees); mp::Equal and std::hash<mp::Expr> on all ordered pairs against the verdict computed on the specifications",
   text="About 100 short rapidcheck campaigns per quick run over all numeric and logical kinds (calls with numeric and string arguments, PL terms, counts, "
        "iterated and pairwise kinds, NaN/Inf/+-0 constants) check reflexivity, symmetry, transitivity, Equal <=> identical specification, and Equal => equal hash; "
        "every 4th campaign adds the symbolic kinds for memory safety.",
   note="depth <= 5 plus one depth-300 chain; +0 vs -0 constants: either verdict accepted; symbolic kinds may throw UnsupportedError"),
})

CHECKS.update({
 "C13": dict(level="exploration", engine="rapidcheck", design="3/C13",
   technique="rapidcheck-generated (function, parameter, interval, tolerance, integrality) cases through mp::PLApproximate; the returned PL function is compared "
             "with the true function (long double) on every piece by sampling plus a local maximum search; structural invariants of breakpoints, domain and period data",
   text="About 19000 generated cases per quick run over all 17 function types, bases/exponents, intervals (tiny, huge, clipped, straddling 0 or a period, far from 0), "
        "tolerances 1e-1..1e-6 and integer arguments. One recorded finding (breakpoints nearer than 1e-4 are dropped) is excluded by its signature and probed by fixed inputs.",
   note="2% slack on the tolerance; maxima located numerically; integer arguments judged at integers"),
})

CHECKS.update({
 "C11": dict(level="exploration", engine="hypothesis+libFuzzer", design="3/C11",
   technique="Hypothesis grammar-generated option strings over the three sources against a reference model of the documented semantics (real BasicSolver::ParseOptions in an ASan+UBSan shim, "
             "inputs in exactly sized heap buffers); libFuzzer on arbitrary bytes with in-target oracle (exception family, return value vs errors, idempotence)",
   text="16000 generated cases per quick run: assignments by name/synonym in any letter case, with/without '=', int/real/quoted/unquoted/command-line string values, wildcard keys, "
        "flags, queries, unknown names, flags given values, all spread over mp_options, <exe>/<solver>_options and argv, with both error handlers; "
        "plus about 500000 coverage-guided executions on arbitrary bytes.",
   note="malformed inputs are judged for totality/memory safety only; tech:optionfile is excluded from fuzzing (it reads files)"),
})

CHECKS.update({
 "C16": dict(level="exploration", engine="rapidcheck", design="3/C16",
   technique="rapidcheck-generated calls of every registered binding (src/gsl/amplgsl.cc compiled against a stand-in funcadd.h, ASan+UBSan) in all request modes; oracle: "
             "returns/deterministic/no silent NaN/error on NaN and integer-argument derivatives, and returned partials vs Ridders extrapolation of the binding's own values",
   text="About 28000 generated calls per quick run over all 343 registered functions x argument classes (regular, near singular, zero, negative, huge/tiny, NaN, "
        "non-integers for integer arguments) x value / first / first+second derivatives x constant masks. Recorded findings are excluded by signature and probed by fixed inputs.",
   note="derivative comparison is made only where the numerical derivative is well resolved (about 1 call in 5); 1% tolerance finds formula errors, not last-digit inaccuracy; four recorded findings (two of them defects of libgsl itself) are excluded by signature"),
})

CHECKS.update({
 "C15": dict(level="exploration", engine="hypothesis", design="3/C15",
   technique="schedule exploration with a harness-owned schedule: guarded call-outs (MP_VERIF_HOOKS) between the stores of SignalHandler's constructor/SetHandler/destructor let the "
             "harness raise SIGINT/SIGTERM exactly there; Hypothesis-generated scenarios (steps x 1..3 signal placements) judged by a reference model; plus a full single-signal sweep",
   text="30000 generated scenarios per quick run plus every single-signal position of a canonical scenario: lost signals (stop query), callback/data pairing, third-interrupt exit, "
        "no call after destruction, number of <BREAK> messages.",
   note="signals are raised synchronously at call-out points; positions inside one atomic store are not distinguished"),
})

CHECKS.update({
 "C03": dict(level="exploration", engine="rapidcheck", design="3/C03",
   technique="rapidcheck-generated model specifications -> NLFeeder -> mp::WriteNLFile (text and binary, generated writer options) -> mp::ReadNLFile with a recording handler; "
             "round-trip oracle against the specification plus text-vs-binary differential",
   text="About 96000 generated models per quick run over all NL operators and arities, all variable/bound/range kinds, defined variables, functions, initial values, suffixes, names, "
        "boundary doubles (subnormals, 17-digit values, extremes, +-Inf bounds) x {text, binary} x {comments} x {bounds first/last} x {column sizes 0/1/2}.",
   note="writer opcode table (nl-opcodes.h) paired by name with the reader's expression kinds; segment order not compared"),
})

CHECKS.update({
 "C08": dict(level="exploration", engine="rapidcheck", design="3/C08",
   technique="rapidcheck-generated matrix models -> mp::NLModel -> NLSolver::LoadModel -> repository NL reader (mp::Problem + recording handler), compared up to the reported permutation "
             "with rows/objective judged as functions at test points; generated .sol -> NLSolver::ReadSolution compared in the caller's order",
   text="About 380000 generated models per quick run: column type / nonlinearity patterns, bounds of all kinds, sparse rows, Hessians in both declared formats with diagonal-only, "
        "off-diagonal-only, duplicate and one-triangle entries, warm starts, suffixes of all kinds, names x {text, binary} x {comments}, plus the solution way back.",
   note="objective semantics taken from NLModel::ComputeObjValue's documentation (0.5 x'Qx over the given entries)"),
})

NOT_APPLICABLE = []

def main():
    props = [json.loads(l)["id"] for l in open(os.path.join(ROOT, "properties.jsonl"))]
    checks = []
    for pid in props:
        c = CHECKS.get(pid)
        if not c:
            continue
        checks.append({
            "property_id": pid,
            "quick_cmd": "./check %s --tier quick" % pid,
            "thorough_cmd": "./check %s --tier thorough" % pid,
            "evidence_file": "/verif/evidence/%s.json" % pid,
            "replay_cmd_template": "./check %s --replay {path}" % pid,
            "engine": c["engine"],
            "level_claimed": {"category": c["level"], "text": c["text"], "design_ref": "DESIGN.md section " + c["design"]},
            "level_note": c["note"],
            "technique": c["technique"],
        })
    na = list(NOT_APPLICABLE)
    claimed = {c["property_id"] for c in checks}
    listed = {n["property_id"] for n in na}
    for pid in props:
        if pid not in claimed and pid not in listed:
            na.append({"property_id": pid, "reason": "check not built yet (work in progress); the design in DESIGN.md section 3 covers it"})
    m = {
        "version": 1,
        "setup_cmd": "make -C /verif -j16 all",
        "hooks": {
            "guard": "MP_VERIF_HOOKS",
            "enable": "checks compile the affected /repo sources themselves with -DMP_VERIF_HOOKS (Makefile flavour 'hooks'); the repository's own build never defines it",
            "baseline_off_cmd": "/verif/tools/baseline_check.sh /repo",
            "source_commits": HOOK_COMMITS,
            "add_only": True,
        },
        "engines": [
            {"name": "hypothesis", "path": "/opt/veriftools/pyvenv", "kind_free_text": "property-based testing (python3-vt) driving C++ shims"},
            {"name": "libFuzzer", "path": "clang-14", "kind_free_text": "coverage-guided fuzzing with in-target oracles, ASan+UBSan"},
            {"name": "rapidcheck", "path": "/usr/include/rapidcheck.h", "kind_free_text": "in-process C++ property-based testing"},
        ],
        "checks": checks,
        "not_applicable": na,
        "notes": "All checks: ./check <id> [--tier quick|thorough] [--replay path]; VERIF_SEED selects the random stream. "
                 "Known findings: /verif/KNOWN_FINDINGS.jsonl.",
    }
    json.dump(m, open(os.path.join(ROOT, "MANIFEST.json"), "w"), indent=1)
    try:
        import jsonschema
        jsonschema.validate(m, json.load(open("/root/.vp/MANIFEST.schema.json")))
        print("MANIFEST.json valid; %d checks, %d not_applicable" % (len(checks), len(na)))
    except ImportError:
        print("written (jsonschema not available for validation)")

HOOK_COMMITS = ["8122cf6", "d57a1f6"]
if __name__ == "__main__":
    main()
