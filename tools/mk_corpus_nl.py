#!/usr/bin/env python3-vt
"""Seed corpus for fuzz_nlread: control byte + small valid NL files (text, binary native, binary swapped) from the model
generator and the repository's test data."""
import glob, hashlib, os, sys
sys.path.insert(0, '/verif')
from hypothesis import given, settings, seed, HealthCheck, Phase
from verif import gen, nl
OUT = '/verif/corpus/C02'
cnt = [0]

def save(ctl, b):
    d = bytes([ctl]) + b
    if len(d) > 6000: return
    open(os.path.join(OUT, hashlib.sha1(d).hexdigest()[:16]), 'wb').write(d)

@seed(20240920)
@settings(max_examples=150, database=None, deadline=None, suppress_health_check=list(HealthCheck), phases=(Phase.generate,))
@given(gen.models(allow=gen.FULL_EXACT | {"ext"}))
def t(mi):
    m, info = mi
    m.x0 = {0: 1.5}; 
    if m.cons: m.y0 = {0: -2.0}
    m.suffixes = [dict(name="priority", kind=0, real=False, values={0: 3}), dict(name="tol", kind=3, real=True, values={0: 0.25})]
    n, _, _ = nl.normalize(m)
    k = cnt[0]; cnt[0] += 1
    fmt = ("text", "binary", "binary")[k % 3]
    b = nl.emit(n, fmt=fmt, swap=(k % 3 == 2), bounds_first=(k % 5 == 0), colsizes=("k", "K", None)[k % 3])
    ctl = (k % 2) | ((k // 2 % 4) << 1) | ((k // 8 % 2) << 3) | ((k // 16 % 4) << 4)
    save(ctl, b)
t()
for f in glob.glob('/repo/test/data/*.nl'):
    save(0, open(f, 'rb').read()); save(8 | 0, open(f, 'rb').read()); save(2, open(f, 'rb').read())
print(len(os.listdir(OUT)), "seeds")
