#!/bin/bash
# usage: seeded_confirm.sh <ID> <worktree> <outdir>  -- confirms a sub-agent's change in its scratch worktree:
# patch applies, library builds, repository suite still passes (missing=0), demo passes on original and fails with the change.
ID=$1; WT=$2; OUT=$3
cd $WT || exit 2
git checkout -q -- . ; git apply --check $OUT/patch.diff || { echo "PATCH DOES NOT APPLY"; exit 1; }
echo "== demo on original"; (cd $OUT/demo && WT=$WT bash ./run.sh > /tmp/demo_orig.$ID.txt 2>&1; echo "demo exit (original): $?")
git apply $OUT/patch.diff
echo "== suite with the change"; $(dirname "$0")/seedtools/build_and_test.sh $WT 2>&1 | tail -3
echo "== demo with the change"; (cd $OUT/demo && WT=$WT bash ./run.sh > /tmp/demo_chg.$ID.txt 2>&1; echo "demo exit (changed): $?")
git checkout -q -- .
tail -5 /tmp/demo_orig.$ID.txt; echo ...; tail -8 /tmp/demo_chg.$ID.txt
