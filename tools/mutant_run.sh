#!/bin/bash
# usage: mutant_run.sh <patch.diff> <check-id> [tier]   -- applies the patch to /repo, runs the check, reverts.
# prints: MUTANT <patch> <id> -> DETECTED | MISSED (exit code of the check)
P=$(readlink -f "$1"); ID=$2; TIER=${3:-quick}
cd /repo || exit 2
if ! git diff --quiet; then echo "/repo has uncommitted changes"; exit 2; fi
git apply "$P" || { echo "patch does not apply: $P"; exit 2; }
cd /verif
# the run on a mutated tree must not leave its evidence behind
EV=/verif/evidence/$ID.json; [ -f $EV ] && cp $EV /var/tmp/evidence-$ID.$$.json
OUT=$(./check $ID --tier $TIER 2>&1); RC=$?
git -C /repo apply -R "$P" 2>/dev/null; git -C /repo checkout -- .
[ -f /var/tmp/evidence-$ID.$$.json ] && mv /var/tmp/evidence-$ID.$$.json $EV
echo "$OUT" | grep -E "VIOLATION|KNOWN-FINDING|BUILD-FAILED|HARNESS" | head -5 | cut -c1-300
echo "$OUT" | tail -1 | cut -c1-200
if [ $RC -eq 1 ]; then echo "MUTANT $(basename $P) $ID -> DETECTED"; elif [ $RC -eq 0 ]; then echo "MUTANT $(basename $P) $ID -> MISSED"; else echo "MUTANT $(basename $P) $ID -> ERROR rc=$RC"; fi
