#!/bin/bash
# usage: build_and_test.sh <worktree>   -- configures (first time), builds and runs the repository's own test suite in <worktree>/_build;
# prints "stable_pass=439 passed_now=N missing=M" and the names of baseline-passing tests that no longer pass. Exit 0 iff missing=0 and the build succeeded.
set -e
WT=$(readlink -f "$1")
if [ ! -f $WT/_build/build.ninja ]; then cmake -G Ninja -S $WT -B $WT/_build -DCMAKE_BUILD_TYPE=RelWithDebInfo -DBUILD_TESTS=ON -DBUILD_EXAMPLES=ON >/dev/null 2>&1 || { echo "CONFIGURE FAILED"; exit 1; }; fi
cmake --build $WT/_build -j8 2>&1 | tail -30 > $WT/_build/last_build.log || { echo "BUILD FAILED (see $WT/_build/last_build.log)"; tail -20 $WT/_build/last_build.log; exit 1; }
S=$(mktemp -d /var/tmp/seedtest.XXXXXX); cd $S
for t in $WT/_build/bin/*-test; do n=$(basename $t); (cd $S && timeout 900 $t --gtest_output=xml:$S/$n.xml >/dev/null 2>&1 || true); done
python3 - "$S" <<'PY'
import sys,glob,json,xml.etree.ElementTree as ET
S=sys.argv[1]
base=json.load(open('/root/.vp/BASELINE.json'))
passed=set()
for f in glob.glob(S+'/*-test.xml'):
    try: root=ET.parse(f).getroot()
    except Exception: continue
    for tc in root.iter('testcase'):
        ok = not any(c.tag in ('failure','error') for c in tc) and tc.get('status','run')!='notrun'
        if ok: passed.add(tc.get('classname')+'::'+tc.get('name'))
missing=[t for t in base['stable_pass'] if t not in passed and t not in base.get('flaky',[]) and '::' in t and t.split('::')[0]!=t.split('::')[1]]
print("stable_pass=%d passed_now=%d missing=%d"%(len(base['stable_pass']),len(passed),len(missing)))
for m in missing[:40]: print("  MISSING",m)
sys.exit(1 if missing else 0)
PY
rc=$?; rm -rf $S; exit $rc
