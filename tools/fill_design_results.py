#!/usr/bin/env python3
"""Substitutes the RESULT_<ID> placeholders of DESIGN.md section 8.1 from seeded/RESULTS.json, and (re)creates rows for seeded changes added later."""
import json, os, re, glob
root = os.path.dirname(os.path.dirname(os.path.abspath(__file__)))
res = json.load(open(os.path.join(root, "seeded", "RESULTS.json")))
p = os.path.join(root, "DESIGN.md"); s = open(p).read()
# rebuild the table rows
start = s.index("| property | seeded change (one line) | needs | result of `./check <ID> --tier quick` |")
end = s.index("\n\n", start)
rows = ["| property | seeded change (one line) | needs | result of `./check <ID> --tier quick` |", "|---|---|---|---|"]
for d in sorted(glob.glob(os.path.join(root, "seeded", "C*"))):
    i = os.path.basename(d); m = json.load(open(os.path.join(d, "meta.json")))
    rows.append("| %s | %s | %s | %s |" % (i, m.get("summary", "").replace("|", "/").replace("\n", " ")[:330], str(m.get("what_triggers_it", "")).replace("|", "/").replace("\n", " ")[:260], res.get(i, "not run yet")))
s = s[:start] + "\n".join(rows) + s[end:]
open(p, "w").write(s)
print("rows:", len(rows) - 2)
