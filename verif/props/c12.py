"""C12 - the solver receives exactly the objective(s) the user selected.

Domain: NL files with 0..4 objectives (mixed sense, linear / nonlinear / constant content) x objno in {absent, 0..N+1}
x multiobj in {absent, 0, 1} x text/binary NL.
Oracle: delivered objectives (dump of SetLinear/QuadraticObjective) must be exactly the selected NL objectives as
functions (C01 machinery: exact evaluator vs z3 over auxiliary variables), the .sol objno line, option error for objno > N.
"""
import json
from fractions import Fraction as F

from hypothesis import strategies as st

from .. import common, conv, gen, hyp, nl
from . import c01

RULE = ("Hypothesis: model with 0..4 objectives x objno x multiobj x text/binary NL x acceptance table; non-trivial = at least 2 "
        "objectives and (objno not in {absent,1} or multiobj on); distinct by hash of (model, options)")


@st.composite
def cases(draw):
    nobj = draw(st.sampled_from([0, 1, 2, 2, 3, 3, 4]))
    allow = frozenset(["abs", "max", "min", "mul", "if", "count"])
    m, info = draw(gen.models(max_vars=3, allow=allow, max_cons=1, max_lcons=1, n_objs=nobj, depth=2, budget=10))
    # tag every objective with a unique linear coefficient on variable 0 so that objectives cannot be confused
    for i, o in enumerate(m.objs):
        o["lin"][0] = F(7 + 2 * i)
    objno = draw(st.sampled_from([None, None, 0, 1, 2, 3, 4, 5]))
    if objno is not None and objno > nobj + 1:
        objno = nobj + 1
    multi = draw(st.sampled_from([None, None, 0, 1, 1]))
    fmt = draw(st.sampled_from(["text", "text", "binary"]))
    acc = draw(st.sampled_from(["all", "none", "typical"]))
    key_objno = draw(st.sampled_from(["objno", "obj:no"]))
    key_multi = draw(st.sampled_from(["multiobj", "obj:multi"]))
    return m, info, objno, multi, fmt, acc, key_objno, key_multi


def acc_table(mode):
    lv = {"LinConLE": 2, "LinConEQ": 2, "LinConGE": 2}
    if mode == "all":
        lv.update({"LinearFunctionalConstraint": 0, "QuadraticFunctionalConstraint": 0})
        for t in gen.CONE_TYPES:
            lv[t] = 0
        return dict(levels=lv, default=2, quadobj=2, nonconvexqc=1, mode="all")
    if mode == "typical":
        for t in gen.TYPICAL_NATIVE:
            lv[t] = 2
        return dict(levels=lv, default=0, quadobj=2, nonconvexqc=1, mode="typical")
    return dict(levels=lv, default=0, quadobj=0, nonconvexqc=0, mode="none")


def judge(n, info, objno, multi, fmt, accmode, kobj, kmulti, res):
    N = len(n.objs)
    opts = ["cvt:mip:eps=%s" % repr(2.0 ** -10)]
    if objno is not None:
        opts.append("%s=%d" % (kobj, objno))
    if multi is not None:
        opts.append("%s=%d" % (kmulti, multi))
    acc = acc_table(accmode)
    # expectation
    alts = []
    eff_objno = 1 if objno is None else objno
    single = [eff_objno - 1] if 1 <= eff_objno <= N else []
    if multi == 1 and objno is not None:
        alts = [single, list(range(N))]        # both given: either documented behaviour
    elif multi == 1:
        alts = [list(range(N))]
    else:
        alts = [single]
    case_extra = dict(objno=objno, multi=multi, fmt=fmt, accmode=accmode)
    if objno is not None and objno > N:
        run = conv.convert(n, acc, opts, fmt=fmt)
        cobj = dict(model=nl.model_to_obj(n), acc=acc, opts=opts, fmt=fmt, c12=case_extra, info=dict(ops=[], nbprod=False))
        text = (run.sol_text or "") + run.err + run.out
        solved = run.dump is not None and any(e["ev"] == "solve" for e in run.dump.events)
        res.case(common.h([cobj["model"], opts]), N >= 2, labels=["objno>N"],
                 sample=dict(n_objs=N, opts=opts, message=text.strip().split("\n")[0][:120]))
        if common.alloc_limit(run, res):
            return None
        if run.sanitizer or run.signal:
            return ("crash with objno beyond the objectives: %s" % common.crash_head(run.err), cobj, "crash")
        if solved or "objno" not in text.lower():
            return ("objno=%d with %d objectives: expected an option error and no solve; solved=%s, output: %r" % (
                objno, N, solved, text[:300]), cobj, "objno-beyond-not-rejected")
        return None
    last = None
    for exp in alts:
        r2 = common.Result()
        v = c01.judge(n, info, acc, opts, F(1, 2), r2, labels=False, expect_objs=exp, strict_objs=True, fmt=fmt)
        run = c01.LAST["run"]
        if v is None:
            # .sol objno line
            if run.sol is not None and run.dump is not None and run.dump.complete:
                want = {exp[0]} if exp else {-1}
                if run.sol.objno not in want:
                    cobj = dict(model=nl.model_to_obj(n), acc=acc, opts=opts, fmt=fmt, c12=case_extra, expect_objs=exp, strict_objs=True,
                                info=dict(ops=sorted(info["ops"]), nbprod=info["nbprod"]), step="1/2")
                    return (".sol says 'objno %s' but the objective used is %s (options %s, %d objectives)" % (
                        run.sol.objno, sorted(want), opts, N), cobj, "sol-objno")
            res.merge_json(r2.to_json())
            nt = N >= 2 and ((objno is not None and objno != 1) or multi == 1)
            if r2.evaluations:
                # re-tag the case as (non-)trivial by this property's rule
                res.nontrivial -= r2.nontrivial
                if nt:
                    res.nontrivial |= {common.h([nl.model_to_obj(n), opts, fmt])}
            res.label("n_objs=%d" % N, "objno=%s" % objno, "multiobj=%s" % multi, "fmt=" + fmt, "expect=%s" % ("all" if len(exp) > 1 or (multi == 1 and objno is None) else ("none" if not exp else "single")))
            return None
        last = v
    desc, cobj, key = last
    cobj["c12"] = case_extra
    return (desc + " [options %s, %d objectives, accepted alternatives %s]" % (opts, N, alts), cobj, key)


def run(ctx):
    common.build("build/vd/vdriver")
    known = {k for k, r in common.load_known(ctx.pid).items() if r.get("status") == "known"}

    def check(case, res):
        m, info, objno, multi, fmt, accmode, kobj, kmulti = case
        n, _, _ = nl.normalize(m)
        return judge(n, info, objno, multi, fmt, accmode, kobj, kmulti, res)
    res = hyp.run_property(ctx, cases(), check, ctx.pick(2400, 60000), known_keys=known, time_budget=ctx.pick(300, 900))
    return common.finish(ctx, res, "exploration", RULE, c01.ASSUME + ["option names objno/obj:no and multiobj/obj:multi are synonyms"])


def replay(ctx, path):
    common.build("build/vd/vdriver")
    c = json.load(open(path))
    n = nl.model_from_obj(c["model"])
    x = c.get("c12", {})
    res = common.Result()
    info = dict(ops=set(c.get("info", {}).get("ops", [])), nbprod=c.get("info", {}).get("nbprod", False))
    v = judge(n, info, x.get("objno"), x.get("multi"), x.get("fmt", "text"), x.get("accmode", "all"), "objno", "multiobj", res)
    if v:
        print("VIOLATION property=%s replay=%s" % (ctx.pid, path))
        print("  " + v[0][:800])
        return 1
    print("replay passes: %s" % path)
    return 0
