"""C03 - NL writer output is read back as the same model (text = binary).

Engine: rapidcheck inside build/prod/nlw_shim: a generated model specification (variable classes, bounds of all five kinds,
ranges and complementarity, linear parts, expression trees over every NL operator incl. PL terms, function calls with string
arguments and symbolic operators, defined variables in all three placements, functions, initial primal/dual values, int/real
suffixes of all kinds, names) is fed through an NLFeeder to mp::WriteNLFile in text and in binary format, under generated
writer options (comments, bounds first/last, column sizes none/cumulative/plain); a recording NLHandler turns what
mp::ReadNLFile reports into an item map that must equal the map computed from the specification (numbers bit for bit apart
from the sign of zero), and the text and binary maps must be identical.
"""
import glob
import json
import os
import shutil
import subprocess
from concurrent.futures import ThreadPoolExecutor

from .. import common

BIN = os.path.join(common.BUILD, "prod", "nlw_shim")


def replay_file(path):
    p = subprocess.run([BIN, "replay", path], env=common.env_with(), stdout=subprocess.PIPE, stderr=subprocess.PIPE, text=True)
    return p.returncode, (p.stdout + p.stderr).strip()


def run(ctx):
    common.build("build/prod/nlw_shim")
    res = common.Result()
    reg = os.path.join(common.ROOT, "regress", ctx.pid)
    for f in sorted(glob.glob(os.path.join(reg, "*.txt"))):
        rc, out = replay_file(f)
        res.evaluations += 1
        res.labels["regress_inputs"] += 1
        if rc != 0:
            res.violation("regression input fails again: %s: %s" % (os.path.basename(f), common.crash_head(out) or out[:300]), None, f)
    n = 1500                        # per process; rapidcheck slows down super-linearly, so many short runs
    jobs = common.NCPU * ctx.pick(4, 80)
    work = os.path.join(common.ROOT, "work", "c03-%d" % os.getpid())
    os.makedirs(work, exist_ok=True)

    def one(i):
        mode = "rc"
        failp = os.path.join(work, "fail%d.txt" % i)
        e = common.env_with(dict(RC_PARAMS="seed=%d max_success=%d max_size=80" % (ctx.seed * 1000 + i + 1, n), NLW_FAIL=failp))
        p = subprocess.run([BIN, mode], env=e, stdout=subprocess.PIPE, stderr=subprocess.PIPE, text=True)
        j = None
        for l in p.stdout.splitlines():
            if l.startswith('{"ok"'):
                j = json.loads(l)
        return i, mode, p, j, failp
    try:
        with ThreadPoolExecutor(common.NCPU) as ex:
            outs = list(ex.map(one, range(jobs)))
        nt = 0
        for i, mode, p, j, failp in outs:
            if j is None:
                path = None
                if os.path.exists(failp):
                    path = os.path.join(common.REPLAYS, ctx.pid, "crash-%d.txt" % i)
                    os.makedirs(os.path.dirname(path), exist_ok=True)
                    shutil.copy(failp, path)
                res.violation("nlw_shim %s aborted (rc=%s): %s" % (mode, p.returncode, common.crash_head(p.stderr) or p.stderr[-300:]), {"stderr": p.stderr[-2000:]}, path)
                continue
            res.evaluations += j["cases"]
            nt += j["distinct_nontrivial"]
            for k, v in j["labels"].items():
                res.labels[k] += v
            res.labels["min_node_kinds_seen_per_process"] = min(res.labels.get("min_node_kinds_seen_per_process") or 999, j["node_kinds_seen"])
            for s in j["samples"][:1]:
                if len(res.samples) < 8:
                    res.samples.append(s)
            if not j["ok"]:
                path = os.path.join(common.REPLAYS, ctx.pid, "fail-%s.txt" % common.h(open(failp).read()))
                os.makedirs(os.path.dirname(path), exist_ok=True)
                shutil.copy(failp, path)
                res.violation(j["fail"][:600], None, path)
        res.nontrivial = nt
    finally:
        shutil.rmtree(work, ignore_errors=True)
    return common.finish(ctx, res, "exploration",
                         "rapidcheck-generated model specifications written in both formats and read back; non-trivial = >= 6 distinct node kinds, "
                         ">= 2 constraints and defined variables or suffixes; distinct by hash of a digest of the model within a process",
                         ["a constant-zero nonlinear part of an algebraic constraint/objective is reported by the reader as 'no expression' (documented ignore_zero)",
                          "bounds of magnitude DBL_MAX mean 'no bound' (NLWriter2::Infty); a suffix without entries is not written",
                          "items are compared as a map keyed by item and index: the order in which the reader reports segments is not compared",
                          "random variables, PL-SOS suffixes, the .fix/.unv/.adj files and network/stage header fields are not generated",
                          "the header counts of variable classes are generated consistently but are not derived from the expressions (the reader does not relate them either)"])


def replay(ctx, path):
    common.build("build/prod/nlw_shim")
    rc, out = replay_file(path)
    if rc != 0:
        print("VIOLATION property=%s replay=%s" % (ctx.pid, path))
        print("  " + out[:600])
        return 1
    print("replay passes: %s" % path)
    return 0
