"""C05 - a written .sol file is read back as the same solution.

Engine: rapidcheck inside build/prod/sol_rt: generated solutions (message text incl. blank lines, backspaces, CRLF, very
long lines; 0..9 options; vectors present/absent/shorter; boundary doubles, 17-digit values, subnormals; suffixes of all
kinds with tables) -> mp::WriteSolFile -> mp::SOLReader2 with a recording handler -> comparison under the tolerances the
property states. A second stream adds +-Inf/NaN for the "same non-finite value or an error code" clause.
"""
import glob
import json
import os
import shutil
import subprocess
from concurrent.futures import ThreadPoolExecutor

from .. import common

BIN = os.path.join(common.BUILD, "prod", "sol_rt")
KNOWN_PROBES = {"zero-options": ("known-zero-options.txt", "SOL_RT_SKIP_ZERO_OPTIONS"),
                "vbtol-form-not-written": ("known-vbtol.txt", "SOL_RT_SKIP_VBTOL"),
                "dblmax-rounds-to-inf": ("known-dblmax.txt", "SOL_RT_SKIP_DBLMAX")}


def replay_file(path):
    p = subprocess.run([BIN, "replay", path], env=common.env_with(), stdout=subprocess.PIPE, stderr=subprocess.PIPE, text=True)
    return p.returncode, (p.stdout + p.stderr).strip()


def run(ctx):
    common.build("build/prod/sol_rt")
    res = common.Result()
    known = {k for k, r in common.load_known(ctx.pid).items() if r.get("status") == "known"}
    reg = os.path.join(common.ROOT, "regress", ctx.pid)
    skip_env = {}
    probe_files = {v[0] for v in KNOWN_PROBES.values()}
    for key, (fname, envname) in KNOWN_PROBES.items():
        rc, out = replay_file(os.path.join(reg, fname))
        res.evaluations += 1
        if rc != 0:
            if key in known:
                res.known(key, {"probe": fname, "result": out[:200]})
                skip_env[envname] = "1"      # excluded by construction from the generated stream, so that the search goes on
            else:
                res.violation("%s: %s" % (fname, out[:300]), None, os.path.join(reg, fname))
    for f in sorted(glob.glob(os.path.join(reg, "*.txt"))):
        if os.path.basename(f) in probe_files:
            continue
        rc, out = replay_file(f)
        res.evaluations += 1
        if rc != 0:
            res.violation("regression input fails again: %s: %s" % (os.path.basename(f), out[:300]), None, f)
    n = 3000                        # per process; rapidcheck slows down super-linearly, so many short runs
    jobs = common.NCPU * ctx.pick(10, 100)
    work = os.path.join(common.ROOT, "work", "c05-%d" % os.getpid())
    os.makedirs(work, exist_ok=True)

    def one(i):
        mode = "rc-nonfinite" if i % 4 == 3 else "rc"
        failp = os.path.join(work, "fail%d.txt" % i)
        e = common.env_with(dict(skip_env, RC_PARAMS="seed=%d max_success=%d max_size=80" % (ctx.seed * 1000 + i + 1, n), SOL_RT_FAIL=failp))
        p = subprocess.run([BIN, mode], env=e, stdout=subprocess.PIPE, stderr=subprocess.PIPE, text=True)
        j = None
        for l in p.stdout.splitlines():
            if l.startswith('{"ok"'):
                j = json.loads(l)
        return i, mode, p, j, failp
    try:
        with ThreadPoolExecutor(common.NCPU) as ex:
            outs = list(ex.map(one, range(jobs)))
        nt = 0
        for i, mode, p, j, failp in outs:
            if j is None:
                path = None
                if os.path.exists(failp):
                    path = os.path.join(common.REPLAYS, ctx.pid, "crash-%d.txt" % i)
                    os.makedirs(os.path.dirname(path), exist_ok=True)
                    shutil.copy(failp, path)
                res.violation("sol_rt %s aborted (rc=%s): %s" % (mode, p.returncode, common.crash_head(p.stderr) or p.stderr[-300:]), {"stderr": p.stderr[-2000:]}, path)
                continue
            res.evaluations += j["cases"]
            nt += j["distinct_nontrivial"]
            for k in ("nonfinite_rejected", "with_suffix_table", "with_17_digit_reals", "multi_line_message", "zero_options", "skipped_known"):
                res.labels[k] += j[k]
            res.labels["stream:" + mode] += j["cases"]
            for s in j["samples"][:1]:
                res.samples.append(s)
            if not j["ok"]:
                path = os.path.join(common.REPLAYS, ctx.pid, "fail-%s.txt" % common.h(open(failp).read()))
                os.makedirs(os.path.dirname(path), exist_ok=True)
                shutil.copy(failp, path)
                res.violation(j["fail"][:500], None, path)
        res.nontrivial = nt
    finally:
        shutil.rmtree(work, ignore_errors=True)
    return common.finish(ctx, res, "exploration",
                         "rapidcheck-generated solutions in 16 processes (every 4th with non-finite values); non-trivial = a suffix with a table or a real "
                         "needing 17 significant digits, and a multi-line message; distinct by hash of the case within a process (summed over "
                         "processes with different seeds)",
                         ["the reader is told the true problem dimensions (mismatches belong to C14)",
                          "leading backspaces are compared after the documented stripping; a trailing CR of a message line is not compared",
                          "recorded findings are excluded from the generated stream by construction and probed by fixed inputs"])


def replay(ctx, path):
    common.build("build/prod/sol_rt")
    rc, out = replay_file(path)
    if rc != 0:
        print("VIOLATION property=%s replay=%s" % (ctx.pid, path))
        print("  " + out[:600])
        return 1
    print("replay passes: %s" % path)
    return 0
