"""C16 - GSL bindings return consistent derivatives or an explicit error.

Engine: rapidcheck inside build/prod/gsl_shim, which compiles src/gsl/amplgsl.cc itself against a stand-in funcadd.h (ASL is not
in the repository), registers all 343 functions through funcadd_ASL and calls them the way an ASL evaluator does (value / derivs /
derivs+hes, with and without the `dig` constant-argument mask). Oracle per call: returns (calls are cut off by a timer), two
identical calls agree bit for bit (non-random functions), no NaN value/derivative without an error message, NaN arguments and
derivative requests with respect to integer arguments set an error, and returned first/second partials agree with Ridders
extrapolation of the binding's own values / first derivatives wherever that numerical value is well resolved.
"""
import glob
import json
import os
import shutil
import subprocess
from concurrent.futures import ThreadPoolExecutor

from .. import common

BIN = os.path.join(common.BUILD, "prod", "gsl_shim")
KNOWN = {  # key in KNOWN_FINDINGS.jsonl -> (probe file prefix, classes of the shim that carry its signature)
    "distribution-parameter-hang": ("known-distparam-", ["hang@distribution-parameter"]),
    "derivative-cancellation-extreme-magnitude": ("known-cancel-", ["deriv-mismatch@extreme-magnitude", "hes-mismatch@extreme-magnitude"]),
    "gsl-laguerre-3-special-case": ("known-gsl-laguerre3-", ["deriv-mismatch@gsl-laguerre3", "hes-mismatch@gsl-laguerre3"]),
    # no fixed probe: whether libgsl's first call differs varies from process to process, so the class is excluded whenever the finding is listed
    "gsl-overflow-first-call-differs": (None, ["nondeterministic@overflowing-argument"]),
}


def _env(path, limit="5"):
    e = dict(GSL_CALL_LIMIT=limit)
    if os.path.basename(path).startswith("known-gsl-firstcall-"):
        e["GSL_NO_PROBE"] = "1"        # this finding shows only on the library's first call of the process
    return common.env_with(e)


def replay_file(path, limit="5"):
    p = subprocess.run([BIN, "replay", path], env=_env(path, limit), stdout=subprocess.PIPE, stderr=subprocess.PIPE, text=True)
    return p.returncode, (p.stdout + p.stderr).strip()


def classify(path):
    p = subprocess.run([BIN, "class", path], env=_env(path), stdout=subprocess.PIPE, stderr=subprocess.PIPE, text=True)
    return (p.stdout.strip().split() or [""])[0]


def run(ctx):
    common.build("build/prod/gsl_shim")
    res = common.Result()
    known = {k for k, r in common.load_known(ctx.pid).items() if r.get("status") == "known"}
    reg = os.path.join(common.ROOT, "regress", ctx.pid)
    skip = set()
    files = sorted(glob.glob(os.path.join(reg, "*.txt")))
    with ThreadPoolExecutor(common.NCPU) as ex:
        outs = list(ex.map(lambda f: (f,) + replay_file(f), files))
    for f, rc, out in outs:
        res.evaluations += 1
        if rc == 0:
            continue
        base = os.path.basename(f)
        hit = None
        for key, (prefix, classes) in KNOWN.items():
            if prefix and base.startswith(prefix) and key in known and classify(f) in classes:
                hit = key
                skip.update(classes)        # excluded by construction from the generated stream, so that the search goes on
        if hit:
            res.known(hit, {"probe": base, "result": out[:300]})
        else:
            res.violation("regression input fails: %s: %s" % (base, common.crash_head(out) or out[:400]), None, f)
    for key, (prefix, classes) in KNOWN.items():
        if prefix is None and key in known:
            skip.update(classes)
    n = 2000                        # per process; rapidcheck slows down super-linearly, so many short runs
    jobs = common.NCPU * ctx.pick(1, 5)
    work = os.path.join(common.ROOT, "work", "c16-%d" % os.getpid())
    os.makedirs(work, exist_ok=True)

    def one(i):
        failp = os.path.join(work, "fail%d.txt" % i)
        cur = os.path.join(work, "cur%d.txt" % i)
        e = common.env_with(dict(RC_PARAMS="seed=%d max_success=%d" % (ctx.seed * 1000 + i + 1, n), GSL_FAIL=failp, GSL_CURRENT=cur, GSL_SKIP=" ".join(sorted(skip))))
        p = subprocess.run([BIN, "rc"], env=e, stdout=subprocess.PIPE, stderr=subprocess.PIPE, text=True)
        j = None
        for l in p.stdout.splitlines():
            if l.startswith('{"ok"'):
                j = json.loads(l)
        return i, p, j, failp, cur
    try:
        with ThreadPoolExecutor(common.NCPU) as ex:
            outs = list(ex.map(one, range(jobs)))
        nt = 0
        fjudged = 0
        for i, p, j, failp, cur in outs:
            if j is None:
                path = None
                if os.path.exists(cur):
                    path = os.path.join(common.REPLAYS, ctx.pid, "crash-%s.txt" % common.h(open(cur).read()))
                    os.makedirs(os.path.dirname(path), exist_ok=True)
                    shutil.copy(cur, path)
                res.violation("gsl_shim aborted (rc=%s): %s" % (p.returncode, common.crash_head(p.stderr) or p.stderr[-300:]), {"stderr": p.stderr[-2000:]}, path)
                continue
            res.evaluations += j["cases"]
            nt += j["distinct_nontrivial"]
            fjudged = max(fjudged, j["functions_with_judged_derivative"])
            res.labels["skipped_known"] += j["skipped_known"]
            res.labels["first_derivatives_compared"] += j["judged_first"]
            res.labels["second_derivatives_compared"] += j["judged_second"]
            for k, v in j["classes"].items():
                res.labels["outcome:" + k] += v
                for key, (prefix, classes) in KNOWN.items():
                    if prefix is None and k.startswith("known:") and k[6:] in classes and v:
                        res.known(key, {"met_in_generated_stream": v})
                if k == "slow-extreme-args":
                    res.inconclusive += v
            res.labels["functions_registered"] = j["functions_registered"]
            res.labels["min_functions_called_per_process"] = min(res.labels.get("min_functions_called_per_process") or 10 ** 6, j["functions_called"])
            for s in j["samples"][:1]:
                if len(res.samples) < 8:
                    res.samples.append(s)
            if not j["ok"]:
                path = os.path.join(common.REPLAYS, ctx.pid, "fail-%s.txt" % common.h(open(failp).read()))
                os.makedirs(os.path.dirname(path), exist_ok=True)
                shutil.copy(failp, path)
                res.violation(j["fail"][:600], None, path)
        res.nontrivial = nt
        res.labels["max_functions_with_a_compared_derivative_per_process"] = fjudged
    finally:
        shutil.rmtree(work, ignore_errors=True)
    return common.finish(ctx, res, "exploration",
                         "rapidcheck-generated (function, argument vector, request mode, constant mask) calls; non-trivial = at least one returned first or second "
                         "partial derivative was compared with a well-resolved numerical derivative; distinct by hash of the case within a process",
                         ["tolerance of the derivative comparison: 1% relative + 100 x the extrapolation's error estimate + 1e-9 + 1e-7 x the size of the differentiated values; "
                          "points where the numerical derivative is not resolved, two step scales disagree, or one-sided slopes differ (kinks, jumps) are not judged",
                          "Hessian layout: row-wise upper triangle, as test/gsl-test.cc reads it",
                          "integer arguments are detected by probing for the binding's own \"can't be represented as\" error",
                          "a call cut off by the 5 s timer (15 s on confirmation) with an argument of magnitude >= 1e6 or <= 1e-100 counts as slow, not judged (inconclusive)",
                          "amplgsl.cc is compiled against a stand-in funcadd.h (ASL is absent); ASan+UBSan on",
                          "recorded findings are excluded from the generated stream by their signatures and probed by fixed inputs"])


def replay(ctx, path):
    common.build("build/prod/gsl_shim")
    rc, out = replay_file(path)
    if rc != 0:
        cls = classify(path)
        known = {k for k, r in common.load_known(ctx.pid).items() if r.get("status") == "known"}
        for key, (prefix, classes) in KNOWN.items():
            if cls in classes and key in known:
                print("KNOWN-FINDING: property=%s %s: %s" % (ctx.pid, key, out[:300]))
                return 0
        print("VIOLATION property=%s replay=%s" % (ctx.pid, path))
        print("  " + out[:600])
        return 1
    print("replay passes: %s" % path)
    return 0
