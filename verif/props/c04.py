"""C04 - solutions and suffixes return to the original model's items intact.

Domain: models with tagged linear constraints of all four shapes mixed with nonlinear/logical items placed before them,
acceptance tables (range rows accepted or turned into equality+slack), and *histories*: generated sequences of direct
presolve/postsolve calls of the different value kinds on the one converted model (executed inside the scripted solver).
Oracle: (1) shape, (2) variable j <-> delivered variable j, (3) linear constraint <-> its single delivered row, with the
slack mapping documented in range_con.h, (4) inbound values land on the images, (5) history independence: every call
returns the same result at any position of any history (compared across two differently ordered histories).
"""
import json
from fractions import Fraction as F

from hypothesis import strategies as st

from .. import common, conv, gen, hyp, nl, vd, flat
from .c12 import acc_table

RULE = ("Hypothesis: tagged-linear model x acceptance x history of 4..12 presolve/postsolve calls (run in two different orders); "
        "non-trivial = at least one linear constraint whose delivered row sits at a different index or is an equality+slack "
        "pair, and the history has >= 3 different call kinds; distinct by hash of (model, acceptance, history)")

BAS_REV = {3: 4, 4: 3}
IIS_SWAP = {1: 3, 3: 1, 2: 2}


@st.composite
def cases(draw):
    nv = draw(st.integers(2, 5))
    vars_ = [dict(lb=F(0), ub=F(10), int=False)]
    for _ in range(nv - 1):
        if draw(st.booleans()):
            lb, ub = draw(st.sampled_from(gen.INT_DOMAINS))
            vars_.append(dict(lb=F(lb), ub=F(ub), int=True))
        else:
            lb, ub = draw(st.sampled_from(gen.CONT_DOMAINS))
            vars_.append(dict(lb=lb, ub=ub, int=False))
    m = nl.Model()
    m.vars = vars_
    ctx = gen.Ctx(draw, vars_, [], gen.FULL_EXACT - {"pl", "div"}, 12)
    for _ in range(draw(st.integers(0, 2))):
        ctx.budget = 10
        e = gen.numeric(ctx, 2, 2)
        m.cons.append(dict(lin={}, expr=e.t, lb=F(-50), ub=F(50), compl=None))
    for _ in range(draw(st.integers(0, 2))):
        ctx.budget = 10
        m.lcons.append(gen.logical(ctx, 2).t)
    nlin = draw(st.integers(1, 4))
    tags = []
    for i in range(nlin):
        lin = {}
        for j in draw(st.lists(st.integers(1, nv - 1), max_size=min(nv - 1, 3), unique=True)):
            lin[j] = draw(st.sampled_from(gen.COEFS))
        tag = F(17 + 2 * i, 8)
        lin[0] = tag
        kind = draw(st.sampled_from(["range", "range", "le", "ge", "eq"]))
        a = draw(st.sampled_from([F(-4), F(0), F(1), F(5, 2), F(7)]))
        lb, ub = {"range": (a, a + 3), "le": (-nl.INF, a), "ge": (a, nl.INF), "eq": (a, a)}[kind]
        m.cons.append(dict(lin=lin, expr=None, lb=lb, ub=ub, compl=None, tag=str(tag), kind=kind))
        tags.append(tag)
    if draw(st.booleans()):
        m.objs.append(dict(sense=draw(st.integers(0, 1)), lin={0: F(1), 1: F(-2)}, expr=None))
    accmode = draw(st.sampled_from(["all", "none", "typical", "norange"]))
    # history
    kinds = ["PostsolveSolution", "PostsolveBasis", "PostsolveIIS", "PresolveSolution", "PresolveBasis", "PresolveGenericInt",
             "PresolveLazyUserCutFlags", "PostsolveGenericDbl", "PresolveGenericDbl", "PostsolveGenericInt"]
    hist = []
    for _ in range(draw(st.integers(4, 12))):
        k = draw(st.sampled_from(kinds))
        a, b = draw(st.integers(1, 6)), draw(st.integers(1, 3))
        pat = draw(st.lists(st.integers(0, 4), min_size=2, max_size=5))
        hist.append((k, a, b, tuple(pat)))
    perm_seed = draw(st.integers(0, 10**6))
    return m, accmode, hist, perm_seed


def acc_for(mode):
    if mode == "norange":
        a = acc_table("typical")
        a["levels"]["LinConRange"] = 0
        a["mode"] = "norange"
        return a
    return acc_table(mode)


def op_line(op, nv, ncon_orig):
    """script line for one op; data are formulas over the natural lengths"""
    k, a, b, pat = op
    cyc = lambda p: "cycle %d %s delta 0" % (len(p), " ".join(str(float(v)) for v in p))
    if k == "PostsolveGenericDbl" and a % 2 == 0:
        # signed values with zeros: where two values meet on one item (row and slack of a range constraint) the documented
        # conflict rule "largest among the non-zero ones" (ValueNode::SetNum) is judged, and it matters only with values <= 0
        return "op %s vars %s cons 3 %s cons 6 affine 0.25 1 delta 0" % (k, cyc([F(p - 2) + F(p % 2, 2) for p in pat]),
                                                                         cyc([F((p + b) % 5 - 2) - F(p % 2, 4) for p in pat]))
    if k in ("PostsolveSolution", "PostsolveGenericDbl"):
        return "op %s vars affine %d %d delta 0 cons 3 affine %d.5 %d delta 0 cons 6 affine 0.25 1 delta 0" % (k, a, b, a, b)
    if k == "PostsolveBasis":
        return "op %s vars %s cons 3 %s" % (k, cyc([1 + (p % 4) for p in pat]), cyc([1 + ((p + a) % 4) for p in pat]))
    if k == "PostsolveIIS":
        return "op %s vars %s cons 3 %s cons 6 %s" % (k, cyc([p % 4 for p in pat]), cyc([(p + a) % 4 for p in pat]), cyc([0, 4]))
    if k == "PostsolveGenericInt" and a % 2 == 0:
        return "op %s vars %s cons 3 %s" % (k, cyc([p - 2 for p in pat]), cyc([(p + b) % 5 - 2 for p in pat]))
    if k == "PostsolveGenericInt":
        return "op %s vars %s cons 3 %s" % (k, cyc([p + a for p in pat]), cyc([p + b for p in pat]))
    # presolve kinds: original vectors have explicit lengths
    if k in ("PresolveSolution", "PresolveGenericDbl"):
        xs = [F(a + b * j, 4) for j in range(nv)]
        ys = [F(a * 3 + i, 2) for i in range(ncon_orig)]
        return "op %s vars %s cons 0 %s" % (k, vd.vec(xs), vd.vec(ys))
    if k == "PresolveBasis":
        return "op %s vars %s cons 0 %s" % (k, vd.vec([1 + (pat[j % len(pat)] % 4) for j in range(nv)]),
                                            vd.vec([1 + ((pat[i % len(pat)] + a) % 4) for i in range(ncon_orig)]))
    if k == "PresolveGenericInt":
        return "op %s vars %s" % (k, vd.vec([pat[j % len(pat)] + a for j in range(nv)]))
    if k == "PresolveLazyUserCutFlags":
        return "op %s cons 0 %s" % (k, vd.vec([(pat[i % len(pat)] % 3) - 1 for i in range(ncon_orig)]))
    raise ValueError(k)


def norm_out(o):
    """a group that is absent and a group with an empty vector carry the same values: compare modulo empty vectors"""
    if not isinstance(o, dict) or "vars" not in o:
        return o
    return {k: {g: v for g, v in o[k].items() if v} for k in ("vars", "cons", "objs")}


def fvec(v):
    return [flat.hx(x) for x in v]


def judge(m, accmode, hist, perm_seed, res, tagvar=None):
    n, vperm, cperm = nl.normalize(m)
    if tagvar is None:
        tagvar = vperm.index(0)      # the generator puts the tag coefficients on its variable 0
    # tags of the normalised constraints
    tags = {}
    for new_i, old_i in enumerate(cperm):
        c = m.cons[old_i]
        if "tag" in c:
            tags[new_i] = (F(c["tag"]), c["kind"])
    nv, nalg, nlog = len(n.vars), len(n.cons), len(n.lcons)
    ncon_orig = nalg + nlog
    acc = acc_for(accmode)
    lines1 = [op_line(op, nv, ncon_orig) for op in hist]
    order = list(range(len(hist)))
    # second history: a deterministic shuffle (reverse + rotation)
    order2 = list(reversed(order))
    r_ = perm_seed % max(1, len(order2))
    order2 = order2[r_:] + order2[:r_]
    lines2 = [lines1[i] for i in order2]
    opts = ["cvt:mip:eps=%s" % repr(2.0 ** -10), "sol:chk:mode=0"]
    cobj = dict(model=nl.model_to_obj(n), tags={str(k): [str(v[0]), v[1]] for k, v in tags.items()}, accmode=accmode,
                hist=[list(h[:3]) + [list(h[3])] for h in hist], perm_seed=perm_seed, norm=True, tagvar=tagvar)
    runs = []
    for lines in (lines1, lines2):
        r = conv.convert(n, acc, opts, extra_cfg=lines)
        if common.alloc_limit(r, res):
            return None
        if r.sanitizer or r.signal:
            return ("crash: %s" % common.crash_head(r.err), cobj, "crash")
        runs.append(r)
    fm = runs[0].dump
    if fm is None or not fm.complete or runs[1].dump is None:
        res.label("refused")
        return None
    ops1 = {e["k"]: e for e in fm.find("op")}
    ops2 = {e["k"]: e for e in runs[1].dump.find("op")}
    if len(ops1) != len(hist) or len(ops2) != len(hist):
        res.label("solver-not-reached")
        return None
    # ---- (5) history independence
    for pos2, i in enumerate(order2):
        o1, o2 = ops1[i], ops2[pos2]
        if norm_out(o1["out"]) != norm_out(o2["out"]):
            return ("history dependence: call %s with the same data returns %s as call #%d of history A but %s as call #%d of "
                    "history B" % (hist[i][0], json.dumps(o1["out"])[:300], i, json.dumps(o2["out"])[:300], pos2), cobj, "history-dependence")
    # ---- images of the tagged linear constraints
    rows3 = [c for c in fm.cons if c.group == 3]
    image = {}
    shifted = False
    for i, (tag, kind) in tags.items():
        cand = []
        for c in rows3:
            a = flat._alg(c.d)
            if any(v == tagvar and cf == tag for cf, v in zip(a["coefs"], a["vars"])):
                cand.append((c, a))
        if len(cand) != 1:
            res.label("image-not-unique")
            continue
        c, a = cand[0]
        extra_vars = [v for v in a["vars"] if v >= nv]
        slack = None
        if c.type == "LinConEQ" and kind == "range" and len(extra_vars) == 1:
            slack = extra_vars[0]
        image[i] = (c.gindex, slack)
        if c.gindex != i or slack is not None:
            shifted = True
    problems = []
    for k, op in enumerate(hist):
        e = ops1[k]
        out = e["out"]
        if "exception" in out:
            problems.append(("op-exception", "%s raised %s" % (op[0], out["exception"][:200])))
            continue
        kind = op[0]
        ov = fvec(out["vars"].get("0", []))
        if kind.startswith("Postsolve"):
            ocons = fvec(out["cons"].get("0", []))
            inv = fvec(e["in_vars"])
            inc3 = fvec(e["in_cons"].get("3", []))
            if len(ov) != nv:
                problems.append(("shape-vars", "%s returned %d variable values for %d original variables" % (kind, len(ov), nv)))
                continue
            if len(ocons) != ncon_orig:
                problems.append(("shape-cons", "%s returned %d constraint values for %d original constraints" % (kind, len(ocons), ncon_orig)))
                continue
            for j in range(nv):
                if ov[j] != inv[j]:
                    problems.append(("var-value", "%s: original variable %d got %s, the solver's value of delivered variable %d is %s" % (
                        kind, j, ov[j], j, inv[j])))
                    break
            for i, (g, slack) in image.items():
                rowv = inc3[g] if g < len(inc3) else None
                if rowv is None:
                    continue
                if slack is None:
                    exp = rowv
                elif kind == "PostsolveBasis":
                    sv = int(inv[slack])
                    exp = BAS_REV.get(sv, sv)
                elif kind == "PostsolveIIS":
                    sv = int(inv[slack])
                    exp = IIS_SWAP.get(sv, None) if sv else rowv
                    if sv and exp is None:
                        continue       # documented: unknown slack IIS status raises
                elif kind in ("PostsolveSolution",):
                    exp = rowv
                else:
                    # generic value kinds: the range constraint receives the row's value and then the slack's (range_con.h
                    # PostsolveGenericDbl/IntEntry); two values on one item are resolved as documented at ValueNode::SetNum:
                    # the largest among the non-zero ones, whatever the order
                    if slack >= len(inv):
                        continue
                    nz = [v for v in (rowv, inv[slack]) if v]
                    exp = max(nz) if nz else 0.0
                if ocons[i] != exp:
                    problems.append(("con-value", "%s: original linear constraint %d (%s) got %s; its row (group 3 index %d%s) has %s, "
                                     "expected %s" % (kind, i, tags[i][1], ocons[i], g, ", slack var %d" % slack if slack is not None else "",
                                                      rowv, exp)))
                    break
        else:
            inv = fvec(e["in_vars"])
            inc0 = fvec(e["in_cons"].get("0", []))
            oc3 = fvec(out["cons"].get("3", []))
            if inv:
                if len(ov) != fm.nvars:
                    problems.append(("shape-presolved-vars", "%s produced %d values for %d delivered variables" % (kind, len(ov), fm.nvars)))
                    continue
                for j in range(nv):
                    exp = inv[j]
                    if kind == "PresolveSolution":
                        exp = min(max(exp, float(fm.lb[j])), float(fm.ub[j]))     # documented clipping into bounds
                    if ov[j] != exp:
                        problems.append(("var-inbound", "%s: value %s given for original variable %d arrived as %s on delivered variable %d" % (
                            kind, inv[j], j, ov[j], j)))
                        break
            if inc0:
                for i, (g, slack) in image.items():
                    if g >= len(oc3):
                        problems.append(("shape-presolved-cons", "%s produced %d values for group 3, row %d expected" % (kind, len(oc3), g)))
                        break
                    exp = inc0[i]
                    if kind == "PresolveBasis" and slack is not None:
                        exp = 5.0
                        sv = ov[slack] if slack < len(ov) else None
                        want = float(BAS_REV.get(int(inc0[i]), int(inc0[i])))
                        if sv is not None and sv != want:
                            problems.append(("slack-basis-inbound", "PresolveBasis: range constraint %d has status %s, its slack %d got %s, expected %s" % (
                                i, inc0[i], slack, sv, want)))
                            break
                    if oc3[g] != exp:
                        problems.append(("con-inbound", "%s: value %s given for original linear constraint %d arrived as %s on its row "
                                         "(group 3 index %d), expected %s" % (kind, inc0[i], i, oc3[g], g, exp)))
                        break
    nkinds = len({h[0] for h in hist})
    res.case(common.h(cobj), shifted and nkinds >= 3, labels=["acc=" + accmode, "kinds=%d" % nkinds] + ["op:" + h[0] for h in hist] +
             (["slack-image"] if any(s is not None for _, s in image.values()) else []) + (["shifted-image"] if shifted else []),
             sample=dict(model=nl.show_model(n)[:200], acc=accmode, history=[h[0] for h in hist], images={str(k): list(v) for k, v in image.items()}))
    from .. import findings
    for key, desc in problems:
        k2 = findings.classify("C04", key, cobj, desc)
        return (desc + " | acc %s | model %s" % (accmode, nl.show_model(n)[:300]), cobj, k2)
    return None


def run(ctx):
    common.build("build/vd/vdriver")
    known = {k for k, r in common.load_known(ctx.pid).items() if r.get("status") == "known"}

    def check(case, res):
        m, accmode, hist, perm_seed = case
        return judge(m, accmode, hist, perm_seed, res)
    res = hyp.run_property(ctx, cases(), check, ctx.pick(5000, 100000), known_keys=known, time_budget=ctx.pick(300, 900))
    return common.finish(ctx, res, "exploration", RULE,
                         ["images of linear constraints are identified by a unique tag coefficient, not through mp's link graph",
                          "the slack mapping (basis low/upp reversal, IIS low/upp swap when the slack is in the IIS) is the one documented in range_con.h",
                          "nothing is asserted about values reported for nonlinear or logical original constraints"])


def replay(ctx, path):
    common.build("build/vd/vdriver")
    c = json.load(open(path))
    n = nl.model_from_obj(c["model"])
    # re-attach tags (the stored model is already normalised: identity permutation)
    for k, (t, kind) in c["tags"].items():
        n.cons[int(k)]["tag"] = t
        n.cons[int(k)]["kind"] = kind
    hist = [(h[0], h[1], h[2], tuple(h[3])) for h in c["hist"]]
    res = common.Result()
    v = judge(n, c["accmode"], hist, c["perm_seed"], res, tagvar=c.get("tagvar"))
    if v:
        print("VIOLATION property=%s replay=%s" % (ctx.pid, path))
        print("  " + v[0][:900])
        return 1
    print("replay passes: %s" % path)
    return 0
