"""C09 - a driver run always ends in a well-formed result or a diagnosed failure.

Domain: (NL file: valid models of every operator mix / unbounded variables / corrupted files) x option strings (valid, unknown,
ill-typed) x invocation (-AMPL or not, wantsol) x name files x scripted solver behaviour (statuses, short/long vectors,
exceptions) x output-path fault (stub.sol is a directory).
Oracle: acceptance classes (A) complete, dimensionally right .sol - with a failure code and message when the solver was
never reached - or (B) no .sol, non-zero exit and a message on stderr. Never a signal, a sanitizer report, a truncated or
dimensionally wrong .sol, a silent exit, or a failure reported with a code in 0-199.
"""
import json
import os
import re
from fractions import Fraction as F

from hypothesis import strategies as st

from .. import common, conv, gen, hyp, nl, vd, solfile

RULE = ("Hypothesis: generated model (extended operator set) -> NL bytes -> optional corruption x options x invocation x scripted "
        "solver; non-trivial = the run took an error path (refusal, failure .sol, stderr exit) or a conversion with >= 1 "
        "auxiliary variable; distinct by hash of all inputs")

VALID_OPTS = ["cvt:pre:all=0", "cvt:quadcon=0", "cvt:bigM=1e4", "sol:chk:mode=1023", "sol:chk:fail=1", "tech:intA=5", "dblA=1.5",
              "strA=hello", "cvt:names=3", "cvt:names=0", "outlev=1", "timing=1", "version", "tech:debug=1", "sol:chk:feastol=1e-3",
              "alg:relax=1", "cvt:sos2=0", "mip:basis=3", "alg:start=3", "sol:stub=altstub", "cvt:mip:eps=0.001", "multiobj=1", "objno=0",
              "lim:time=5", "tech:writegraph=graph.jsonl", "wantsol=1", "wantsol=2", "wantsol=8", "sol:count=1", "sol:stub=s"]
BAD_OPTS = ["foo=1", "cvt:nosuch=1", "tech:intA=abc", "cvt:pre:all=x", "dblA=1e", "objno=-1", "objno=99", "wantsol=-5", "=", "intA", "strA",
            "cvt:bigM", "sol:chk:mode=notanumber", "acc:nosuchcon=1", "intA=99999999999999999999", "dblA=1e999", "'", "\"abc"]


@st.composite
def cases(draw):
    m, info = draw(gen.models(allow=gen.FULL_EXACT | {"ext"}, max_vars=4))
    fmt = draw(st.sampled_from(["text", "text", "binary"]))
    corrupt = draw(st.sampled_from([None, None, None, "truncate", "line", "drop", "dup", "header", "byte"]))
    cpos = draw(st.integers(0, 10**6))
    cval = draw(st.sampled_from(["-1", "0", "99999", "2147483647", "2147483648", "-2147483649", "1e400", "nan", "x", "", "o99", "v999",
                                 "n1e999", "99999999999999999999"]))
    nopt = draw(st.integers(0, 3))
    opts = [draw(st.sampled_from(VALID_OPTS + BAD_OPTS if draw(st.integers(0, 3)) == 0 else VALID_OPTS)) for _ in range(nopt)]
    ampl = draw(st.sampled_from([True, True, True, False]))
    accmode = draw(st.sampled_from(["all", "none", "typical", "typical"]))
    names = draw(st.sampled_from([None, None, "ok", "short", "crlf", "long", "binary"]))
    solver = draw(st.sampled_from(["ok", "ok", "ok", "long", "empty", "throw1", "throw2", "infeas", "fail", "negcode", "interm"]))
    fault = draw(st.sampled_from([None, None, None, None, "soldir"]))
    return dict(m=m, info=info, fmt=fmt, corrupt=corrupt, cpos=cpos, cval=cval, opts=opts, ampl=ampl, accmode=accmode, names=names,
                solver=solver, fault=fault)


def corrupt_bytes(b, kind, pos, val, fmt):
    if kind is None:
        return b, False
    head_end = 0
    for _ in range(10):
        head_end = b.index(b"\n", head_end) + 1
    if kind == "truncate":
        k = head_end + pos % max(1, len(b) - head_end)
        return b[:k], False
    if kind == "byte":
        k = head_end + pos % max(1, len(b) - head_end)
        return b[:k] + bytes([(b[k] + 1 + pos % 250) % 256]) + b[k + 1:], False
    if kind == "header":
        lines = b[:head_end].split(b"\n")
        li = 1 + pos % 9
        toks = lines[li].split(b"\t")[0].split()
        if toks:
            toks[pos % len(toks)] = val.encode()
            lines[li] = b" " + b" ".join(toks)
        return b"\n".join(lines) + b[head_end:], True
    if fmt == "binary":
        k = head_end + pos % max(1, len(b) - head_end)
        if kind == "drop":
            return b[:k] + b[k + 4:], False
        if kind == "dup":
            return b[:k] + b[k:k + 4] + b[k:], False
        return b[:k] + val.encode() + b[k + len(val):], False
    lines = b[head_end:].split(b"\n")
    li = pos % max(1, len(lines))
    if kind == "line":
        lines[li] = val.encode()
    elif kind == "drop":
        del lines[li]
    elif kind == "dup":
        lines.insert(li, lines[li])
    return b[:head_end] + b"\n".join(lines), False


def solver_cfg(kind):
    if kind == "ok":
        return ["status 0 ok", "primal affine 0 0 delta 0", "dual 3 affine 0 0 delta 0", "objvals 1 0x0p+0"]
    if kind == "short":
        return ["status 0 ok", "primal affine 1 1 delta -1", "dual 3 affine 0 1 delta -1"]
    if kind == "long":
        return ["status 0 ok", "primal affine 1 1 delta 3", "dual 3 affine 0 1 delta 2", "objvals 3 0x1p+0 0x1p+1 0x1p+2"]
    if kind == "empty":
        return ["status 0 ok"]
    if kind == "throw1":
        return ["status 0 ok", "solve_throw 1"]
    if kind == "throw2":
        return ["status 0 ok", "solve_throw 2"]
    if kind == "infeas":
        return ["status 200 infeasible", "iis_var affine 1 0 delta 0", "iis_con 3 affine 1 0 delta 0"]
    if kind == "fail":
        return ["status 550 numeric failure"]
    if kind == "negcode":
        return ["status -1 unknown"]
    if kind == "interm":
        return ["status 0 ok", "primal affine 0 0 delta 0", "interm 2", "objvals 1 0x0p+0"]
    raise ValueError(kind)


def names_files(kind, n):
    if kind is None:
        return {}
    nv, nc = len(n.vars) + len(n.dvars), len(n.cons) + len(n.lcons) + len(n.objs)
    col = ["x[%d]" % i for i in range(nv)]
    row = ["c['a b',%d]" % i for i in range(nc)]
    if kind == "short":
        col, row = col[:max(0, nv - 1)], row[:max(0, nc - 2)]
    if kind == "long":
        col, row = col + ["extra"] * 3, row + ["more"] * 2
    sep = "\r\n" if kind == "crlf" else "\n"
    if kind == "binary":
        return {"m.col": b"\x00\xff\xfe\n\n\n" + b"x" * 5000, "m.row": b""}
    return {"m.col": (sep.join(col) + sep).encode(), "m.row": (sep.join(row) + sep).encode()}


def judge(c, res):
    n, _, _ = nl.normalize(c["m"])
    nlb = nl.emit(n, fmt=c["fmt"])
    nlb, header_touched = corrupt_bytes(nlb, c["corrupt"], c["cpos"], c["cval"], c["fmt"])
    acc = gen_acc(c["accmode"])
    extra = names_files(c["names"], n)
    keep = c["fault"] == "soldir"
    cfg = conv.cfg_lines(acc) + solver_cfg(c["solver"])
    import base64
    cobj = dict(nl_b64=base64.b64encode(nlb).decode(), cfg=cfg, opts=c["opts"], ampl=c["ampl"], names=c["names"], fault=c["fault"],
                extra={k: base64.b64encode(v).decode() for k, v in extra.items()}, nvars=len(n.vars), ncons=len(n.cons),
                header_touched=header_touched)
    return judge_raw(cobj, res, model_text=nl.show_model(n)[:300], labels=["fmt:" + c["fmt"], "corrupt:%s" % c["corrupt"], "solver:" + c["solver"],
                                                                           "names:%s" % c["names"], "fault:%s" % c["fault"], "ampl:%s" % c["ampl"]])


def gen_acc(mode):
    from .c12 import acc_table
    return acc_table(mode)


def judge_raw(cobj, res, model_text="", labels=()):
    import base64
    nlb = base64.b64decode(cobj["nl_b64"])
    extra = {k: base64.b64decode(v) for k, v in cobj["extra"].items()}
    if cobj["fault"] == "soldir":
        extra["m.sol/placeholder"] = b""
    # sub-directory files: create the directory through vd.run's extra_files (handles nested names)
    r = vd.run(nlb, cobj["cfg"], options=cobj["opts"], ampl=cobj["ampl"], extra_files=_nested(extra), timeout=60)
    opts = cobj["opts"]
    stub = "m"
    for o in opts:
        if o.startswith("sol:stub="):
            stub = None     # solution goes elsewhere; only judge crashes/diagnostics
    wantsol = any(o.startswith("wantsol=") and o[8:].lstrip("-").isdigit() and int(o[8:]) & 1 for o in opts)
    solved = r.dump is not None and any(e["ev"] == "solve" for e in r.dump.events) and r.dump.phase == "reported"
    kind = None
    v = None
    out_all = (r.out + r.err).strip()
    if r.timed_out:
        res.inconclusive += 1
        res.label("guard-expired")
        return None
    if "out-of-memory" in r.err or "allocation-size-too-big" in r.err or "requested allocation size" in r.err:
        # a hostile count made the reader reserve more than the sanitizer's allocator allows: load noise, not a verdict
        res.inconclusive += 1
        res.label("allocator-limit")
        return None
    if r.signal or r.sanitizer:
        v = ("crash", "driver died: rc=%s %s" % (r.rc, common.crash_head(r.err)))
    elif r.sol_text is not None and stub:
        if r.sol is None:
            v = ("sol-malformed", ".sol does not parse: %s; first lines %r" % (r.sol_error, r.sol_text[:200]))
        else:
            s = r.sol
            if not cobj["header_touched"] and (s.ncons != cobj["ncons"] or s.nvars != cobj["nvars"]):
                v = ("sol-dims", ".sol declares %d constraints / %d variables, the NL header has %d / %d; message %r" % (
                    s.ncons, s.nvars, cobj["ncons"], cobj["nvars"], s.message[:2]))
            elif s.nduals not in (0, s.ncons) or s.nprimals not in (0, s.nvars):
                v = ("sol-partial-vector", ".sol has %d of %d duals, %d of %d primals" % (s.nduals, s.ncons, s.nprimals, s.nvars))
            elif s.code is None:
                v = ("sol-no-code", ".sol lacks the objno line")
            elif not solved:
                msg = "\n".join(s.message).strip()
                if not ((200 <= s.code <= 299) or (500 <= s.code <= 999)):
                    v = ("failure-with-success-code", "the solver was never reached but the .sol reports code %d; message %r" % (s.code, msg[:200]))
                elif len(msg) < 5:
                    v = ("failure-without-message", "failure code %d with empty message" % s.code)
                elif bool(re.search(r"\binfeasible\b", msg, re.I)) != (200 <= s.code <= 299):
                    # the code's class must match the diagnosed cause: 200-299 for a model proven infeasible during conversion, 500-999 otherwise
                    v = ("code-class-does-not-match-cause", "the message %s infeasibility but the .sol code is %d; message %r" % (
                        "diagnoses" if re.search(r"\binfeasible\b", msg, re.I) else "does not diagnose", s.code, msg[:200]))
                kind = "A-failure"
            else:
                kind = "A-ok"
    else:
        # no .sol (or redirected)
        if r.rc == 0:
            if cobj["ampl"] and stub and cobj["fault"] is None and not any(o in ("version",) or o.startswith("-") for o in opts):
                v = ("silent-exit", "exit status 0 under -AMPL without a .sol file; output %r" % out_all[:200])
            kind = "no-sol-rc0"
        else:
            if not r.err.strip() and not r.out.strip():
                v = ("silent-failure", "exit status %s, no .sol, nothing on stderr/stdout" % r.rc)
            kind = "B"
    nt = kind in ("A-failure", "B") or (r.dump is not None and r.dump.complete and r.dump.nvars > cobj["nvars"])
    res.case(common.h(cobj), nt, sample=dict(model=model_text, opts=opts, ampl=cobj["ampl"], outcome=kind, rc=r.rc,
                                             sol_code=r.sol.code if r.sol else None, first_output=out_all[:100]),
             labels=list(labels) + ["outcome:%s" % kind])
    if v:
        from .. import findings
        key = findings.classify("C09", v[0], dict(cobj, out=out_all[:500], sol=r.sol_text[:500] if r.sol_text else None), v[1])
        return (v[1] + " | options %s ampl=%s | model %s" % (opts, cobj["ampl"], model_text[:200]), cobj, key or None)
    return None


def _nested(extra):
    out = {}
    for k, v in extra.items():
        out[k] = v
    return out


def bigm_sweep(res):
    """'needs bounds it does not have': an implication / disjunction over a comparison of a variable that lacks the bound the big-M
    linearisation needs must end in a 500-class failure naming the remedy when cvt:bigM is not given, and must convert when it is
    (or when the bound exists). Complete sweep over form x bound kind x comparison x {cvt:bigM given or not} x rhs sign."""
    from fractions import Fraction as F
    INF = nl.INF
    out = []
    for form in ("impl", "or"):
        for bound, (lb, ub) in (("free", (-INF, INF)), ("lower", (F(0), INF)), ("upper", (-INF, F(9))), ("both", (F(-4), F(9)))):
            for rel in ("ge", "le", "eq", "lt", "gt"):
                for bigm in (False, True):
                    for rhs in (F(5), F(-3, 2)):
                        m = nl.Model()
                        m.vars = [dict(lb=lb, ub=ub, int=False), dict(lb=F(0), ub=F(1), int=True)]
                        cmpx = ("cmp", rel, ("var", 0), ("num", rhs))
                        m.lcons = [("impl", ("cmp", "eq", ("var", 1), ("num", F(1))), cmpx, ("lconst", 1))] if form == "impl" else [("or", cmpx, ("cmp", "ge", ("var", 1), ("num", F(1))))]
                        m.objs = [dict(sense=0, lin={0: F(1)}, expr=None)]
                        n, _, _ = nl.normalize(m)
                        nlb = nl.emit(n, fmt="text")
                        cfg = conv.cfg_lines(gen_acc("none")) + solver_cfg("ok")
                        opts = ["cvt:bigM=10000"] if bigm else []
                        r = vd.run(nlb, cfg, options=opts, ampl=True, timeout=60)
                        needs = (rel in ("ge", "gt", "eq") and lb == -INF) or (rel in ("le", "lt", "eq") and ub == INF)
                        # a comparison the bounds already decide may or may not be folded to a constant before conversion
                        decided = {"ge": lb >= rhs or ub < rhs, "gt": lb > rhs or ub <= rhs, "le": ub <= rhs or lb > rhs, "lt": ub < rhs or lb >= rhs,
                                   "eq": rhs < lb or rhs > ub}[rel]
                        if decided:        # whether such a comparison is folded before conversion is not specified: not judged
                            res.case(common.h(["bigm", form, str(lb), str(ub), rel, str(rhs), bigm]), False, labels=["bigm-sweep", "bigm-decided-by-bounds"])
                            continue
                        expect_fail = needs and not bigm
                        code = r.sol.code if r.sol else None
                        msg = " ".join(r.sol.message) if r.sol else (r.err + r.out)
                        mentions = "bigm" in msg.lower()
                        failed = code is not None and 500 <= code <= 999
                        desc = "%s, x in [%s, %s], x %s %s, %s" % (form, lb, ub, rel, rhs, "cvt:bigM=10000" if bigm else "no cvt:bigM")
                        res.case(common.h(["bigm", desc]), True, labels=["bigm-sweep", "bigm-expect-failure" if expect_fail else "bigm-expect-conversion"])
                        if r.signal or r.sanitizer:
                            out.append(("crash in the big-M sweep (%s): %s" % (desc, common.crash_head(r.err)), desc))
                        elif expect_fail and not (failed and mentions):
                            out.append(("a comparison that needs a bound the variable does not have was not diagnosed (%s): .sol code %s, message %r" % (desc, code, msg[:160]), desc))
                        elif not expect_fail and (failed or code is None):
                            out.append(("a convertible model ended in a failure (%s): .sol code %s, message %r" % (desc, code, msg[:160]), desc))
    return out


def run(ctx):
    common.build("build/vd/vdriver")
    known = {k for k, r in common.load_known(ctx.pid).items() if r.get("status") == "known"}
    res = hyp.run_property(ctx, cases(), judge, ctx.pick(8000, 300000), known_keys=known, time_budget=ctx.pick(300, 900))
    import glob
    for f in sorted(glob.glob(os.path.join(common.ROOT, "regress", ctx.pid, "*.json"))):
        try:
            c = json.load(open(f))
            if "nl_b64" not in c:
                continue
            v = judge_raw(c, res)
        except Exception as e:      # an old-format file: skip
            res.notes.append("regress file %s not replayed: %s" % (os.path.basename(f), e))
            continue
        if v and v[2] not in known:
            res.violation("regression input fails again: %s: %s" % (os.path.basename(f), v[0][:300]), None, f)
    for desc, what in bigm_sweep(res):
        path = common.save_replay(ctx.pid, {"bigm_sweep": what})
        res.violation(desc, None, path)
    return common.finish(ctx, res, "exploration", RULE,
                         ["termination is not decided: a 60 s guard expiry is counted as inconclusive",
                          "my .sol parser (verif/solfile.py) defines 'well-formed'",
                          "disk-full faults are not injected (no quota facility in the sandbox); the output-path fault is 'stub.sol is a directory'"])


def replay(ctx, path):
    common.build("build/vd/vdriver")
    c = json.load(open(path))
    res = common.Result()
    if "bigm_sweep" in c:
        bad = [d for d in bigm_sweep(res) if d[1] == c["bigm_sweep"]]
        v = (bad[0][0],) if bad else None
    else:
        v = judge_raw(c, res)
    if v:
        print("VIOLATION property=%s replay=%s" % (ctx.pid, path))
        print("  " + v[0][:800])
        return 1
    print("replay passes: %s" % path)
    return 0
