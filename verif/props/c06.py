"""C06 - inferred bounds and integrality of auxiliary variables never cut off a value.

Domain: single-objective models `minimize f(args)` (no root constraint can push bounds down into the expression) over
argument boxes of all classes, every functional constraint type, accept-everything configuration so that each functional
constraint is delivered together with its result variable.
Oracle: for every delivered functional constraint, sample argument points in the *delivered* argument boxes, evaluate the
function (exact rationals; libm for transcendental types) and require lb - tau <= v <= ub + tau, and integrality if the
result variable is declared integer.
"""
import itertools
import json
import math
from fractions import Fraction as F

from hypothesis import strategies as st

from .. import common, conv, flat, gen, hyp, nl
from .c12 import acc_table

RULE = ("Hypothesis: objective expression over generated boxes, accept-all configuration; every delivered functional constraint is "
        "sampled at <= 80 argument points (all integer points if few, else corners, zeros, near-bound and interior points); "
        "non-trivial = the result variable got a finite inferred bound or integer type and >= 20 points were evaluated; "
        "distinct by (type, argument boxes, parameters, result box)")
TAU = 1e-9
DOMAIN_RESTRICTED = {"LogConstraint", "LogAConstraint", "PowConstraint", "AsinConstraint", "AcosConstraint", "AcoshConstraint",
                     "AtanhConstraint", "DivConstraint", "TanConstraint", "ExpConstraint", "ExpAConstraint", "SinhConstraint", "CoshConstraint"}

BOXES_INT = [(0, 1), (-3, 3), (0, 5), (2, 2), (-2, 0), (1, 4), (-5, -1), (0, 0), (-1, 1), (3, 7), (-4, 6), (-3, 1), (-6, 2)]
BOXES_CONT = [(F(-2), F(2)), (F(0), F(4)), (F(-4), F(-1)), (F(3, 2), F(3, 2)), (F(0), F(1)), (F(-1), F(3)), (F(1, 2), F(5, 2)),
              (F(-1, 2), F(1, 2)), (F(0), nl.INF), (-nl.INF, F(0)), (-nl.INF, nl.INF), (F(1), nl.INF), (F(-10**6), F(10**6)), (F(1, 10), F(9, 10)),
              (F(-7, 2), F(-1, 4)), (F(-3), F(1)), (F(-5, 2), F(1, 2)), (F(-10), F(1, 2))]      # incl. zero-crossing boxes with |lb| > ub


@st.composite
def cases(draw):
    nv = draw(st.integers(1, 3))
    vars_ = []
    for _ in range(nv):
        if draw(st.booleans()):
            lb, ub = draw(st.sampled_from(BOXES_INT))
            vars_.append(dict(lb=F(lb), ub=F(ub), int=True))
        else:
            lb, ub = draw(st.sampled_from(BOXES_CONT))
            vars_.append(dict(lb=lb, ub=ub, int=False))
    m = nl.Model()
    m.vars = vars_
    allow = (gen.FULL_EXACT | {"ext"}) - {"call"}
    ctx = gen.Ctx(draw, vars_, [], allow, 14)
    e = gen.numeric(ctx, draw(st.integers(1, 3)), 2)
    m.objs = [dict(sense=draw(st.integers(0, 1)), lin={}, expr=e.t)]
    opts = draw(st.sampled_from([[], [], ["cvt:pre:all=0"], ["cvt:quadcon=0"], ["cvt:pre:eqbinary=0"]]))
    return m, sorted(e.ops), opts


def sample_axis(lb, ub, isint, salt):
    lo = -1000.0 if lb == -flat.INF else float(lb)
    hi = 1000.0 if ub == flat.INF else float(ub)
    if lo > hi:
        return []
    if isint:
        lo_i, hi_i = math.ceil(lo), math.floor(hi)
        if hi_i - lo_i <= 12:
            return [float(k) for k in range(lo_i, hi_i + 1)]
        pts = {lo_i, hi_i, lo_i + 1, hi_i - 1, (lo_i + hi_i) // 2, 0, 1, -1, 2, -2}
        return sorted(float(p) for p in pts if lo_i <= p <= hi_i)
    pts = {lo, hi, (lo + hi) / 2, lo + (hi - lo) / 4, lo + 3 * (hi - lo) / 4, lo + (hi - lo) * 1e-6, hi - (hi - lo) * 1e-6, 0.0, 1.0, -1.0,
           0.5, -0.5, lo + (hi - lo) * ((salt % 97) / 97.0), lo + (hi - lo) * ((salt % 89) / 89.0)}
    if ub == flat.INF:
        pts |= {1e6, 1e3}
    if lb == -flat.INF:
        pts |= {-1e6, -1e3}
    return sorted(p for p in pts if lo <= p <= hi or (ub == flat.INF and p >= lo) or (lb == -flat.INF and p <= hi))


def judge(n, ops, opts, res, known=()):
    acc = acc_table("all")
    # also deliver affine / quadratic functional constraints as such, so that their interval arithmetic is judged
    acc["levels"]["LinearFunctionalConstraint"] = 2
    acc["levels"]["QuadraticFunctionalConstraint"] = 2
    run = conv.convert(n, acc, list(opts) + ["cvt:mip:eps=%s" % repr(2.0 ** -10)])
    cobj = dict(model=nl.model_to_obj(n), opts=list(opts), ops=ops)
    if common.alloc_limit(run, res):
        return None
    if run.sanitizer or run.signal:
        return ("crash: %s" % common.crash_head(run.err), cobj, "crash")
    fm = run.dump
    if fm is None or not fm.complete:
        res.label("refused")
        return None
    lbf = [float(v) for v in fm.lb]
    ubf = [float(v) for v in fm.ub]
    # A function with a restricted domain (log, fractional powers, asin, ...) legitimately narrows its *argument*; when that
    # argument is itself the result variable of another expression, values outside the outer domain are cut on purpose
    # (the composite expression is undefined there). Those result variables are not judged.
    restricted = set()
    for c in fm.cons:
        if c.kind == "func" and c.type in DOMAIN_RESTRICTED:
            restricted.update(c.d["args"])
    for c in fm.cons:
        d = c.d
        if c.kind not in ("func", "linfunc", "quadfunc", "cond") or d.get("res_var", -1) < 0:
            continue
        r = d["res_var"]
        if r in restricted:
            res.label("skipped:argument-of-restricted-domain-function")
            continue
        if c.kind == "func" and c.type in ("ExpAConstraint", "LogAConstraint"):
            try:
                base = float.fromhex(d["params"][0]) if isinstance(d["params"][0], str) else float(d["params"][0])
            except Exception:
                base = 1.0
            if base <= 0 or base == 1:
                # a^x / log_a x with a non-positive base is not a real function of a continuous argument (defined at isolated points only)
                res.label("skipped:non-positive-base")
                continue
        if c.kind == "func":
            argv = list(d["args"])
        elif c.kind == "cond":
            a = flat._alg(d["con"])
            argv = sorted(set(a["vars"]) | set(a["qvars1"]) | set(a["qvars2"]))
        else:
            a = flat._alg_expr(d["expr"])
            argv = sorted(set(a["vars"]) | set(a["qvars1"]) | set(a["qvars2"]))
        argv_u = sorted(set(argv))
        salt = int(common.h([c.type, argv_u, str(d.get("params"))]), 16)
        axes = [sample_axis(fm.lb[v], fm.ub[v], fm.type[v] == 1, salt + 7 * k) for k, v in enumerate(argv_u)]
        if any(not ax for ax in axes):
            continue
        total = 1
        for ax in axes:
            total *= len(ax)
        combos = itertools.product(*axes)
        if total > 80:
            step = total / 80.0
            allc = list(itertools.islice(itertools.product(*axes), 0, min(total, 20000)))
            combos = [allc[int(i * step) % len(allc)] for i in range(80)] + [tuple(ax[0] for ax in axes), tuple(ax[-1] for ax in axes)]
        npts = 0
        x = [0.0] * fm.nvars
        bad = None
        for combo in combos:
            for v, val in zip(argv_u, combo):
                x[v] = val
            val = flat.func_value_float(c, x)
            if val is None or val != val or abs(val) == float("inf"):
                continue
            npts += 1
            tau = TAU * max(1.0, abs(val))
            if isinstance(val, complex) or val != val:
                continue          # the function is undefined at this argument (negative base with a fractional exponent)
            if val < lbf[r] - tau or val > ubf[r] + tau:
                bad = ("bounds-cut-off", "%s: result x%d has bounds [%s, %s] but f(%s) = %r for arguments %s with boxes %s (params %s)" % (
                    c.type, r, fm.lb[r], fm.ub[r], ",".join("x%d=%r" % (v, x[v]) for v in argv_u), val, argv,
                    [(str(fm.lb[v]), str(fm.ub[v]), "int" if fm.type[v] else "real") for v in argv_u], d.get("params")))
                break
            if fm.type[r] == 1 and abs(val - round(val)) > 1e-9 * max(1.0, abs(val)):
                bad = ("integer-type-wrong", "%s: result x%d is declared integer but f(%s) = %r (arg boxes %s, params %s)" % (
                    c.type, r, ",".join("x%d=%r" % (v, x[v]) for v in argv_u), val,
                    [(str(fm.lb[v]), str(fm.ub[v]), "int" if fm.type[v] else "real") for v in argv_u], d.get("params")))
                break
        inferred = (fm.lb[r] != -flat.INF or fm.ub[r] != flat.INF or fm.type[r] == 1)
        key = [c.type, [(str(fm.lb[v]), str(fm.ub[v]), fm.type[v]) for v in argv_u], str(d.get("params")), str(fm.lb[r]), str(fm.ub[r]), fm.type[r]]
        res.case(common.h(key), inferred and npts >= 20, labels=["type:" + c.type],
                 sample=dict(type=c.type, arg_boxes=key[1], params=str(d.get("params"))[:80], result_box=[str(fm.lb[r]), str(fm.ub[r]), fm.type[r]], points=npts))
        if bad:
            from .. import findings
            k2 = findings.classify("C06", bad[0], dict(cobj, ctype=c.type), bad[1])
            if k2 is not None and k2 in known:
                res.known(k2, {"desc": bad[1][:200]})
                continue
            return (bad[1] + " | model %s opts %s" % (nl.show_model(n)[:300], opts), cobj, k2)
    return None


def run(ctx):
    common.build("build/vd/vdriver")
    known = {k for k, r in common.load_known(ctx.pid).items() if r.get("status") == "known"}

    def check(case, res):
        m, ops, opts = case
        n, _, _ = nl.normalize(m)
        return judge(n, ops, opts, res, known)
    res = hyp.run_property(ctx, cases(), check, ctx.pick(12000, 200000), known_keys=known, time_budget=ctx.pick(300, 900))
    return common.finish(ctx, res, "exploration", RULE,
                         ["libm (Python math) evaluates the transcendental functions; tolerance tau = 1e-9*max(1,|v|)",
                          "infinite argument bounds are sampled at +-1e3 and +-1e6",
                          "only objective expressions are used, so that no root constraint legitimately narrows a result variable"])


def replay(ctx, path):
    common.build("build/vd/vdriver")
    c = json.load(open(path))
    n = nl.model_from_obj(c["model"])
    res = common.Result()
    known = {k for k, r in common.load_known(ctx.pid).items() if r.get("status") == "known"}
    v = judge(n, c.get("ops", []), c["opts"], res, known)
    if v:
        print("VIOLATION property=%s replay=%s" % (ctx.pid, path))
        print("  " + v[0][:900])
        return 1
    print("replay passes: %s" % path)
    return 0
