"""C18 - mp::Equal is a structural equivalence consistent with std::hash<mp::Expr>.

Engine: rapidcheck inside build/prod/expr_shim. A case is a tree specification A over all expression kinds plus 1..3
others (single-point mutants of A or of the previous mutant, copies, independent trees); everything is built in one
mp::ExprFactory (A twice, independently) and mp::Equal / the hash are compared for all ordered pairs with the verdict
computed on the specifications: reflexive, symmetric, transitive, true iff identical, Equal => same hash.
Every 4th process adds the symbolic kinds (IFSYM, NUMBEROF_SYM), for which UnsupportedError is accepted.
"""
import glob
import json
import os
import shutil
import subprocess
from concurrent.futures import ThreadPoolExecutor

from .. import common

BIN = os.path.join(common.BUILD, "prod", "expr_shim")


def replay_file(path):
    p = subprocess.run([BIN, "replay", path], env=common.env_with(), stdout=subprocess.PIPE, stderr=subprocess.PIPE, text=True)
    return p.returncode, (p.stdout + p.stderr).strip()


def run(ctx):
    common.build("build/prod/expr_shim")
    res = common.Result()
    reg = os.path.join(common.ROOT, "regress", ctx.pid)
    for f in sorted(glob.glob(os.path.join(reg, "*.txt"))):
        rc, out = replay_file(f)
        res.evaluations += 1
        res.labels["regress_inputs"] += 1
        if rc != 0:
            res.violation("regression input fails again: %s: %s" % (os.path.basename(f), common.crash_head(out) or out[:300]), None, f)
    p = subprocess.run([BIN, "deep", "300"], env=common.env_with(), stdout=subprocess.PIPE, stderr=subprocess.PIPE, text=True)
    res.evaluations += 1
    if p.returncode != 0:
        res.violation("chain of depth 300: %s" % (common.crash_head(p.stderr) or (p.stdout + p.stderr)[-300:]), None, None)
    n = 3000                        # per process; rapidcheck slows down super-linearly, so many short runs
    jobs = common.NCPU * ctx.pick(6, 60)
    work = os.path.join(common.ROOT, "work", "c18-%d" % os.getpid())
    os.makedirs(work, exist_ok=True)

    def one(i):
        mode = "rc-symbolic" if i % 4 == 3 else "rc"
        failp = os.path.join(work, "fail%d.txt" % i)
        e = common.env_with(dict(RC_PARAMS="seed=%d max_success=%d max_size=80" % (ctx.seed * 1000 + i + 1, n), EXPR_FAIL=failp))
        p = subprocess.run([BIN, mode], env=e, stdout=subprocess.PIPE, stderr=subprocess.PIPE, text=True)
        j = None
        for l in p.stdout.splitlines():
            if l.startswith('{"ok"'):
                j = json.loads(l)
        return i, mode, p, j, failp
    try:
        with ThreadPoolExecutor(common.NCPU) as ex:
            outs = list(ex.map(one, range(jobs)))
        nt = 0
        for i, mode, p, j, failp in outs:
            if j is None:
                path = None
                if os.path.exists(failp):
                    path = os.path.join(common.REPLAYS, ctx.pid, "crash-%d.txt" % i)
                    os.makedirs(os.path.dirname(path), exist_ok=True)
                    shutil.copy(failp, path)
                res.violation("expr_shim %s aborted (rc=%s): %s" % (mode, p.returncode, common.crash_head(p.stderr) or p.stderr[-300:]), {"stderr": p.stderr[-2000:]}, path)
                continue
            res.evaluations += j["cases"]
            nt += j["distinct_nontrivial"]
            for k in ("pairs", "equal_true", "equal_false", "zero_sign_only", "unsupported_thrown"):
                res.labels[k] += j[k]
            for k, v in j["mutations"].items():
                res.labels["other:" + k] += v
            res.labels["stream:" + mode] += j["cases"]
            res.labels["min_kinds_seen_per_process"] = min(res.labels.get("min_kinds_seen_per_process") or 999, j["kinds_at_root_tree"])
            for s in j["samples"][:1]:
                if len(res.samples) < 8:
                    res.samples.append(s)
            if not j["ok"]:
                path = os.path.join(common.REPLAYS, ctx.pid, "fail-%s.txt" % common.h(open(failp).read()))
                os.makedirs(os.path.dirname(path), exist_ok=True)
                shutil.copy(failp, path)
                res.violation(j["fail"][:600], None, path)
        res.nontrivial = nt
    finally:
        shutil.rmtree(work, ignore_errors=True)
    return common.finish(ctx, res, "exploration",
                         "rapidcheck-generated expression trees with mutants/copies/independent trees, all ordered pairs compared; non-trivial = "
                         "tree A has >= 4 nodes and the case contains a real single-point mutant; distinct by hash of the serialised case "
                         "within a process (summed over processes with different seeds)",
                         ["trees that differ only in the sign of a zero constant: either verdict of Equal is accepted (the hash implication is still checked)",
                          "all NaN constants count as the same constant",
                          "symbolic kinds (IFSYM, NUMBEROF_SYM, top-level string) may throw UnsupportedError: the property names numeric/logical kinds only",
                          "nesting depth is bounded (generated depth <= 5, one chain of depth 300): Equal and the hash are recursive, so "
                          "'terminates' is not explored for trees deep enough to exhaust the stack",
                          "all expressions of a case live in one ExprFactory; functions are compared by identity as the code documents"])


def replay(ctx, path):
    common.build("build/prod/expr_shim")
    rc, out = replay_file(path)
    if rc != 0:
        print("VIOLATION property=%s replay=%s" % (ctx.pid, path))
        print("  " + out[:600])
        return 1
    print("replay passes: %s" % path)
    return 0
