"""C11 - solver option parsing is total, faithful and ordered.

Two engines:
 * Hypothesis (this file): grammar-generated well-formed assignments over an option table of all three types with inline and
   out-of-line synonyms, a flag, wildcard options and the built-in options, spread over the three sources (mp_options,
   <exe>/<solver>_options, command line), with queries, unknown names, flags given values, and a malformed tail appended
   to some cases. Oracle: an independent reference model of the documented semantics (last assignment wins in source order;
   `name=?` changes nothing; errors change nothing and are reported). The real parser runs in build/prod/opt_shim (ASan+UBSan,
   every input string in an exactly sized heap buffer).
 * libFuzzer (fuzz/fuzz_opts.cc, run through verif.fuzzrun): arbitrary bytes for totality / memory safety / idempotence.
"""
import json
import math
import os
import subprocess

from hypothesis import strategies as st

from .. import common, hyp

BIN = os.path.join(common.BUILD, "prod", "opt_shim")
RULE = ("Hypothesis: option strings over 3 sources x option table; non-trivial = >= 2 sources used, an option assigned more than once "
        "(override order matters) and >= 3 distinct value types/forms; distinct by hash of the case")

# canonical name -> (type, all accepted names)
TABLE = {
    "lim:iter": ("int", ["lim:iter", "iterlim", "iterations", "maxiter"]),
    "alg:method": ("int", ["alg:method", "method", "lpmethod"]),
    "lim:time": ("dbl", ["lim:time", "timelim", "timelimit"]),
    "mip:gap": ("dbl", ["mip:gap", "mipgap", "outofline_gap"]),
    "tech:logfile": ("str", ["tech:logfile", "logfile"]),
    "tech:param": ("str", ["tech:param", "param"]),
    "acc:int": ("int", ["acc:int", "accint"]),
    "acc:dbl": ("dbl", ["acc:dbl", "accdbl"]),
    "acc:str": ("str", ["acc:str", "accstr"]),
    "tech:wantsol": ("int", ["tech:wantsol", "wantsol"]),
    "obj:no": ("int", ["obj:no", "objno"]),
    "tech:turbo": ("flag", ["tech:turbo", "turbo", "trb"]),
}
WILD = {"wc_int": ("int", [("obj:", ":priority"), ("obj_", "_priority")]), "wc_dbl": ("dbl", [("obj:", ":weight"), ("obj_", "_weight")])}
UNKNOWN = ["bogus", "lim:itr", "iterlimx", "obj:priority", "tech:", "x", "timelim2", "obj:*:priority", "ITER_LIM", "obj_*_weight", "obj_*_priority", "OBJ_*_WEIGHT"]


def near_misses():
    """Names one edit away from a registered name or synonym that are not registered themselves: every proper prefix, one character
    appended, one character dropped. The registered names come from the registry's own listing (opt_shim --names), so built-in
    options are covered too."""
    out = subprocess.run([BIN, "--names"], env=common.env_with(), stdout=subprocess.PIPE, text=True).stdout.split()
    known = {n.lower() for n in out} | {"outofline_gap"}
    plain = sorted(n for n in known if "*" not in n)
    cand = set()
    for n in plain:
        cand.update(n[:k] for k in range(1, len(n)))
        cand.update(n + c for c in "sx2_")
        cand.update(n[:k] + n[k + 1:] for k in range(len(n)))

    def wild(c):
        return any(c.startswith(h) and c.endswith(t) and len(c) >= len(h) + len(t) for _, forms in WILD.values() for h, t in forms)
    return sorted(c for c in cand if c and c not in known and not wild(c) and not c.isdigit())

NEAR = []        # filled by run() before the workers start
_proc = {}


def shim():
    p = _proc.get(os.getpid())
    if p is None or p.poll() is not None:
        p = subprocess.Popen([BIN, "-"], stdin=subprocess.PIPE, stdout=subprocess.PIPE, stderr=subprocess.PIPE, env=common.env_with())
        _proc[os.getpid()] = p
    return p


def hx(b):
    if isinstance(b, str):
        b = b.encode("latin-1")
    return b.hex() or "-"


def run_case(case):
    """case: dict(handler, exe, env=[(name, value)], args=[...]) with latin-1 strings. Returns (json | None, stderr)."""
    p = shim()
    lines = ["handler %s" % case["handler"]]
    if case.get("exe"):
        lines.append("exe %s" % hx(case["exe"]))
    for k, v in case["env"]:
        lines.append("env %s %s" % (hx(k), hx(v)))
    for a in case["args"]:
        lines.append("arg %s" % hx(a))
    lines.append("end")
    try:
        p.stdin.write(("\n".join(lines) + "\n").encode())
        p.stdin.flush()
        out = p.stdout.readline()
    except BrokenPipeError:
        out = b""
    if not out:
        p.wait()
        err = p.stderr.read().decode("latin-1", "replace")
        _proc.pop(os.getpid(), None)
        return None, err, p.returncode
    return json.loads(out), "", 0


# ------------------------------------------------------------------ generators
def vary_case(draw, name):
    mode = draw(st.integers(0, 3))
    if mode == 0:
        return name
    if mode == 1:
        return name.upper()
    return "".join(c.upper() if draw(st.booleans()) else c.lower() for c in name)


INT_VALUES = st.one_of(st.integers(-2 ** 31, 2 ** 31 - 1), st.sampled_from([0, 1, -1, 2 ** 31 - 1, -2 ** 31, 7, 100]))
DBL_VALUES = st.one_of(st.floats(allow_nan=False, allow_infinity=False), st.sampled_from([0.0, -0.0, 1e-9, 0.1, 1e300, -2.5, 5e-324, 1.7976931348623157e308]),
                       st.integers(-10 ** 6, 10 ** 6).map(float))
TOKEN_CHARS = st.characters(min_codepoint=33, max_codepoint=255, blacklist_characters="'\"")   # latin-1, no blanks, no quotes
UNQUOTED = st.text(TOKEN_CHARS, min_size=1, max_size=12).filter(lambda s: s != "?" and s[0] != "=")     # "name =x" reads '=' as the separator
INNER = st.text(st.characters(min_codepoint=32, max_codepoint=255, blacklist_characters="'\""), min_size=0, max_size=14)


@st.composite
def int_text(draw, v):
    f = draw(st.integers(0, 4))
    if f == 0 and v >= 0:
        return "+%d" % v
    if f == 1:
        return ("-" if v < 0 else "") + "00" + str(abs(v))
    return str(v)


@st.composite
def dbl_text(draw, v):
    f = draw(st.integers(0, 4))
    if f == 0 and v == int(v) and abs(v) < 1e15:
        return str(int(v)) if not (v == 0 and math.copysign(1, v) < 0) else "-0"
    if f == 1:
        return "%.17e" % v
    if f == 2 and abs(v) < 1e300:
        return repr(v).upper().replace("E", "e")
    return repr(v)


@st.composite
def item(draw, source):
    """One element of an option string: returns (text, effect) with effect in
       ('set', canon, value) | ('setwc', which, body, value) | ('query', canon) | ('flag', canon) | ('unknown', name) | ('flagvalue', canon)
       plus `last`: True if the item must be the last of its command-line argument (string values there run to the end)."""
    kind = draw(st.sampled_from(["set"] * 8 + ["wild", "query", "flag", "unknown", "flagvalue", "overflow"]))
    sep = draw(st.sampled_from(["=", "=", " = ", " ", "= ", " =", "\t=\t"]))
    if kind == "wild":
        which = draw(st.sampled_from(sorted(WILD)))
        typ, forms = WILD[which]
        head, tail = draw(st.sampled_from(forms))
        body = draw(st.sampled_from(["1", "2", "10", "abc", "x_y", "1:2", "b" * 45, "long" * 30]))
        name = vary_case(draw, head) + body + vary_case(draw, tail)
        # synonyms of a wildcard option are matched case-sensitively on head and tail (rfind); keep the documented spelling
        name = head + body + tail
        if typ == "int":
            v = draw(INT_VALUES)
            return name + sep + draw(int_text(v)), ("setwc", which, body, v), False
        v = draw(DBL_VALUES)
        return name + sep + draw(dbl_text(v)), ("setwc", which, body, v), False
    if kind == "overflow":       # an integer that no int option can hold: must be refused, never stored as another number
        canon = draw(st.sampled_from(["lim:iter", "alg:method", "acc:int", "tech:wantsol", "obj:no"]))
        name = vary_case(draw, draw(st.sampled_from(TABLE[canon][1])))
        v = draw(st.sampled_from([2 ** 31, -2 ** 31 - 1, 3000000000, 2 ** 32 + 1, 2 ** 63, -2 ** 63 - 1, 10 ** 25, -10 ** 30, 2 ** 32]))
        return name + sep + str(v), ("overflow", canon, v), False
    if kind == "unknown":
        name = draw(st.sampled_from(UNKNOWN))
        if NEAR and draw(st.booleans()):
            name = vary_case(draw, draw(st.sampled_from(NEAR)))
        val = draw(st.sampled_from(["5", "-1", "0.5", "1e3"]))
        return name + "=" + val, ("unknown", name, val), False
    canon = draw(st.sampled_from(sorted(TABLE)))
    typ, names = TABLE[canon]
    name = vary_case(draw, draw(st.sampled_from(names)))
    if typ == "flag":
        if kind == "flagvalue":
            return name + "=" + draw(st.sampled_from(["1", "0", "yes"])), ("flagvalue", canon), False
        return name, ("flag", canon), False
    if kind in ("flag", "flagvalue"):
        kind = "set"
    if kind == "query":
        return name + draw(st.sampled_from(["=?", " = ?", " ?", "=? "])).rstrip(" ") , ("query", canon), False
    if typ == "int":
        if canon == "tech:wantsol":
            v = draw(st.integers(0, 15))
        elif canon == "obj:no":
            v = draw(st.integers(0, 5))
        else:
            v = draw(INT_VALUES)
        return name + sep + draw(int_text(v)), ("set", canon, v), False
    if typ == "dbl":
        v = draw(DBL_VALUES)
        return name + sep + draw(dbl_text(v)), ("set", canon, v), False
    # string
    if source == "arg":
        v = draw(st.one_of(UNQUOTED, st.text(st.characters(min_codepoint=32, max_codepoint=255), min_size=1, max_size=14).filter(lambda s: not s[0].isspace() and s[0] != "=" and s != "?" and not (s[0] == "?" and s[1:2].isspace()))))
        return name + sep + v, ("set", canon, v), True
    if draw(st.booleans()):
        v = draw(UNQUOTED)
        return name + sep + v, ("set", canon, v), False
    q = draw(st.sampled_from(["'", '"']))
    v = draw(INNER)
    other = '"' if q == "'" else "'"
    if draw(st.integers(0, 3)) == 0:
        v = v + other + "x"
    return name + sep + q + v + q, ("set", canon, v), False


@st.composite
def source_text(draw, source, max_items=4):
    n = draw(st.integers(0, max_items))
    texts, effects = [], []
    for _ in range(n):
        t, e, last = draw(item(source))
        texts.append(t)
        effects.append(e)
        if last:
            break
    glue = draw(st.sampled_from([" ", "  ", " \t", "\n"])) if source != "arg" else " "
    lead = draw(st.sampled_from(["", " ", "\t "]))
    trail = draw(st.sampled_from(["", " ", "\n"])) if not (effects and effects[-1][0] == "set" and TABLE.get(effects[-1][1], ("",))[0] == "str" and source == "arg") else ""
    return lead + glue.join(texts) + trail, effects


@st.composite
def cases(draw):
    handler = draw(st.sampled_from(["record", "record", "throw"]))
    use_exe = draw(st.integers(0, 3)) == 0
    exe = draw(st.sampled_from(["/usr/bin/myexe", "myexe.exe", "./dir.d/myexe", "/opt/x/myexe.app"])) if use_exe else ""
    srcs = []      # (kind, name, text, effects) in the order the code must apply them
    if draw(st.booleans()):
        t, e = draw(source_text("env"))
        srcs.append(("env", "mp_options", t, e))
    have_exe_var = use_exe and draw(st.booleans())
    if have_exe_var:
        t, e = draw(source_text("env"))
        srcs.append(("env", "myexe_options", t, e))
    if draw(st.booleans()):
        t, e = draw(source_text("env"))
        srcs.append(("env" if not have_exe_var else "ignored", "optsolver_options", t, e))
    for _ in range(draw(st.integers(0, 3))):
        t, e = draw(source_text("arg", max_items=3))
        srcs.append(("arg", None, t, e))
    tail = ""
    if draw(st.integers(0, 5)) == 0:      # a malformed tail on the last command-line argument: totality only
        tail = draw(st.sampled_from([" logfile='unterminated", ' param="abc', " iterlim=", " =5", " = ", " timelim=abc", " iterlim=3.7", " ?", " iterlim=99999999999999999999",
                                     " acc:int=4294967297", " " + "x" * 600 + "=1", " logfile=\xff\xfe", " iterlim==3", " wantsol=77777777777"]))
    return dict(handler=handler, exe=exe, srcs=srcs, tail=tail)


# ------------------------------------------------------------------ reference model
def expected(case, defaults):
    vals = dict(defaults)
    wc = {"wc_int": {}, "wc_dbl": {}}
    errors = 0
    stopped = False
    for kind, name, text, effects in case["srcs"]:
        if kind == "ignored" or stopped:
            continue
        for e in effects:
            if e[0] == "set":
                vals[e[1]] = e[2]
            elif e[0] == "setwc":
                wc[e[1]][e[2]] = e[3]
            elif e[0] == "flag":
                vals[e[1]] = 1
            elif e[0] == "overflow":      # InvalidOptionValue-style exception, thrown past either handler: parsing stops here
                stopped = "overflow"
                break
            elif e[0] in ("unknown", "flagvalue"):
                errors += 2 if e[0] == "unknown" else 1     # the value of an unknown name is then read as a name: unknown again
                if case["handler"] == "throw":
                    stopped = True
                    break
        if stopped:
            break
    return vals, wc, errors, stopped


def same(typ, want, got):
    if typ == "dbl":
        g = float.fromhex(got)
        return g == want and math.copysign(1, g) == math.copysign(1, want)
    if typ == "str":
        return got == want
    return got == want


_defaults = {}


def defaults():
    if not _defaults:
        j, err, rc = run_case(dict(handler="record", exe="", env=[], args=[]))
        v = j["values"]
        for canon, (typ, _) in TABLE.items():
            _defaults[canon] = float.fromhex(v[canon]) if typ == "dbl" else v[canon]
    return _defaults


def to_run(case):
    env = [(n, t) for k, n, t, e in case["srcs"] if k in ("env", "ignored")]
    args = [t for k, n, t, e in case["srcs"] if k == "arg"]
    if case["tail"]:
        if args:
            args[-1] = args[-1] + case["tail"]
        else:
            args = [case["tail"]]
    return dict(handler=case["handler"], exe=case["exe"], env=env, args=args)


def check(case, res):
    d = defaults()
    rc_case = to_run(case)
    j, err, code = run_case(rc_case)
    nsrc = len([1 for k, n, t, e in case["srcs"] if k != "ignored" and e])
    effects = [e for k, n, t, es in case["srcs"] if k != "ignored" for e in es]
    assigned = [e[1] for e in effects if e[0] in ("set", "flag")]
    forms = {e[0] + ":" + (TABLE[e[1]][0] if e[0] == "set" else "") for e in effects}
    nontrivial = nsrc >= 2 and len(assigned) > len(set(assigned)) and len(forms) >= 3
    res.case(common.h(rc_case), nontrivial, sample=(dict(env=rc_case["env"], args=rc_case["args"]) if nontrivial else None),
             labels=["handler:" + case["handler"]] + (["malformed-tail"] if case["tail"] else []) + (["exe-var"] if case["exe"] else []) + ["effect:" + e[0] for e in effects[:6]])
    rc_case = case          # the replay file keeps the generated structure (sources + expected effects)
    if j is None:
        return ("parser crashed: %s" % (common.crash_head(err) or err[-300:]), rc_case, "crash")
    if j["thrown_type"] == "std::exception":
        return ("unexpected exception type: %s" % j["thrown"][:200], rc_case, "exception-type")
    if case["tail"]:
        res.label("judged:totality-only")
        return None
    vals, wc, nerr, stopped = expected(case, d)
    got = j["values"]
    for canon, (typ, _) in TABLE.items():
        if not same(typ, vals[canon], got[canon]):
            return ("option %s: expected %r, parser has %r" % (canon, vals[canon], got[canon]), rc_case, "value:" + typ)
    for which, typ in (("wc_int", "int"), ("wc_dbl", "dbl")):
        g = got[which]
        if set(g) != set(wc[which]):
            return ("wildcard option keys: expected %r, parser has %r" % (sorted(wc[which]), sorted(g)), rc_case, "wildcard")
        for k, v in wc[which].items():
            if not same(typ, v, g[k]):
                return ("wildcard option %s[%s]: expected %r, parser has %r" % (which, k, v, g[k]), rc_case, "wildcard")
    if stopped == "overflow":
        if not j["thrown"] or "range" not in j["thrown"]:
            return ("an integer value outside the int range was not refused (thrown: %r)" % j["thrown"][:100], rc_case, "overflow")
        if case["handler"] == "record" and len(j["errors"]) != nerr:
            return ("expected %d reported errors before the out-of-range value, got %d" % (nerr, len(j["errors"])), rc_case, "error-count")
    elif case["handler"] == "record":
        if len(j["errors"]) != nerr:
            return ("expected %d reported errors, got %d: %r" % (nerr, len(j["errors"]), j["errors"][:3]), rc_case, "error-count")
        if j["ret"] != (nerr == 0):
            return ("ParseOptions returned %s with %d errors" % (j["ret"], nerr), rc_case, "return")
        if j["thrown"]:
            return ("exception with a recording error handler: %s" % j["thrown"][:200], rc_case, "thrown")
    else:
        if bool(j["thrown"]) != (nerr > 0):
            return ("default handler: %s but %d errors expected" % ("exception '%s'" % j["thrown"][:100] if j["thrown"] else "no exception", nerr), rc_case, "thrown")
        if not j["thrown"] and not j["ret"]:
            return ("ParseOptions returned false without an error", rc_case, "return")
    return None


def run(ctx):
    common.build("build/prod/opt_shim", "build/fuzz/fuzz_opts")
    NEAR[:] = near_misses()
    res = hyp.run_property(ctx, cases(), check, ctx.pick(16000, 200000))
    res.extra["unknown_near_miss_names"] = len(NEAR)
    import glob
    for f in sorted(glob.glob(os.path.join(common.ROOT, "regress", ctx.pid, "*.json"))):
        case = json.load(open(f))
        case["srcs"] = [tuple(s[:3]) + ([tuple(e) for e in s[3]],) for s in case["srcs"]]
        v = check(case, res)
        if v:
            res.violation("regression input fails again: %s: %s" % (os.path.basename(f), v[0]), None, f)
    # coverage-guided part: arbitrary bytes
    from .. import fuzzrun
    fres = common.Result()
    camp = fuzzrun.campaign(ctx, fres, os.path.join(common.BUILD, "fuzz", "fuzz_opts"), os.path.join(common.ROOT, "corpus", "C11"),
                            ctx.pick(30000, 400000), 600, "C11-ORACLE-VIOLATION", dictp=os.path.join(common.ROOT, "fuzz", "opts.dict"), nontrivial_key="set_any")
    res.evaluations += fres.evaluations
    res.violations.extend(fres.violations)
    res.inconclusive += fres.inconclusive
    res.notes.extend(fres.notes)
    res.extra.update(fres.extra)
    res.labels["fuzz_executions"] = fres.evaluations
    res.labels["fuzz_distinct_units_that_set_an_option"] = len(fres.nontrivial) if isinstance(fres.nontrivial, set) else fres.nontrivial
    for k in ("threw", "with_errors", "clean", "set_any"):
        res.labels["fuzz_" + k] = int(camp.get(k, 0))
    return common.finish(ctx, res, "exploration", RULE + "; plus libFuzzer executions of fuzz_opts on arbitrary bytes (counted in evaluations)",
                         ["a string value given on the command line extends to the end of that argument (documented: the shell has already split and unquoted it)",
                          "an unknown name's value is itself read as a name (so it is generated numeric, and two errors are expected with a recording handler)",
                          "with the default (throwing) error handler parsing stops at the first error: earlier assignments stay, later ones are not applied",
                          "<exe>_options, when set, replaces <solver>_options (as BasicSolver::ParseOptions documents)",
                          "integer values are generated within int range; out-of-range and malformed values are exercised for totality only",
                          "wildcard option keys are generated in the documented spelling (head/tail are matched case-sensitively)"])


def replay(ctx, path):
    common.build("build/prod/opt_shim")
    try:
        case = json.load(open(path))
    except ValueError:          # a libFuzzer artifact
        from .. import fuzzrun
        common.build("build/fuzz/fuzz_opts")
        rc, err = fuzzrun.run_files(os.path.join(common.BUILD, "fuzz", "fuzz_opts"), [path])
        if rc != 0:
            print("VIOLATION property=%s replay=%s" % (ctx.pid, path))
            print("  " + fuzzrun.classify(err, "C11-ORACLE-VIOLATION"))
            return 1
        print("replay passes: %s" % path)
        return 0
    if "srcs" in case:
        case["srcs"] = [tuple(s[:3]) + ([tuple(e) for e in s[3]],) for s in case["srcs"]]
        res = common.Result()
        v = check(case, res)
    else:
        j, err, code = run_case(case)
        v = None if j is not None and j["thrown_type"] != "std::exception" else ("parser crashed: " + (common.crash_head(err) or err[-300:]),)
    if v:
        print("VIOLATION property=%s replay=%s" % (ctx.pid, path))
        print("  " + v[0][:600])
        return 1
    print("replay passes: %s" % path)
    return 0
