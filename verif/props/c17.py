"""C17 - checked integer arithmetic is exact or raises overflow, never wraps.

Engine: complete enumeration (8-bit always, 16-bit band/full) + boundary sets + rapidcheck random pairs,
all inside build/prod/safeint_check (UBSan on, so a wrap in the implementation is itself a failure).
Oracle: __int128 arithmetic.
"""
import json
import os
import subprocess

from .. import common

BIN = os.path.join(common.BUILD, "ub", "safeint_check")
UNSIGNED = {"uint8_t", "uint16_t", "unsigned", "ulong_t", "ullong_t"}


def classify(f):
    """Root-cause key of a failure record (used to match KNOWN_FINDINGS records)."""
    op = f["op"][0]
    if op == "*" and f["got"] == "overflow" and f["expected"].startswith("-") and f["expected"] != "overflow":
        # product equals min() of the type?
        mins = {"int8_t": -2**7, "int16_t": -2**15, "int": -2**31, "long": -2**63, "llong_t": -2**63}
        if mins.get(f["type"]) == int(f["expected"]):
            return "mul-product-equals-min"
    if op == "-" and f["type"] in UNSIGNED:
        return "sub-unsigned"
    return None


def run_bin(args, extra_env=None, timeout=7200):
    p = subprocess.run([BIN] + args, stdout=subprocess.PIPE, stderr=subprocess.PIPE, text=True,
                       env=common.env_with(extra_env), timeout=timeout)
    line = None
    for l in p.stdout.splitlines():
        if l.startswith('{"evaluations"'):
            line = l
    if p.returncode != 0 or line is None:
        return None, p
    return json.loads(line), p


def run(ctx):
    common.build("build/ub/safeint_check")
    res = common.Result()
    known = {k: r for k, r in common.load_known(ctx.pid).items() if r.get("status") == "known"}
    # rapidcheck slows down super-linearly with max_success, so the random part is many short runs
    nrc = ctx.pick(32, 640)
    stages = [("enum8", ["enum8"], None),
              ("boundary", ["boundary"], None)]
    rc_envs = [{"RC_PARAMS": "seed=%d max_success=4000 max_size=200" % (ctx.seed * 1000003 + 17 + k)}
               for k in range(nrc)]
    from concurrent.futures import ThreadPoolExecutor
    with ThreadPoolExecutor(common.NCPU) as ex:
        nparts = 4 * common.NCPU
        e16_args = [["enum16", ctx.pick("band", "full"), str(i), str(nparts)] for i in range(nparts)]
        e16_results = list(ex.map(lambda a: run_bin(a), e16_args))
        rc_results = list(ex.map(lambda e: run_bin(["rc"], e), rc_envs))
    results = ([(n, a, run_bin(a, e)) for n, a, e in stages] + [("enum16", a, r) for a, r in zip(e16_args, e16_results)]
               + [("rc", ["rc"], r) for r in rc_results])
    for name, args, (j, p) in results:
        if j is None:
            # sanitizer abort or crash: that is UB/wrap inside the implementation
            case = {"stage": name, "args": args, "rc": p.returncode, "stderr": p.stderr[-3000:]}
            res.violation("safeint_check %s aborted (rc=%d): %s" % (name, p.returncode, p.stderr[-400:]), case)
            continue
        res.evaluations += j["evaluations"]
        res.extra["nontrivial_" + name] = j["nontrivial"]
        res.extra["overflow_expected_" + name] = j["overflow_expected"]
        res.labels[name + ":evaluations"] += j["evaluations"]
        res.labels[name + ":expected-overflow"] += j["overflow_expected"]
        for s in j["samples"][:3]:
            res.samples.append(s)
        # distinct non-trivial: every enumerated pair is distinct by construction; random ones may repeat -
        # count them conservatively as the number of *boundary-adjacent* results in the enumerated stages only.
        if name != "rc":
            res.extra.setdefault("_nt", 0)
            res.extra["_nt"] += j["nontrivial"]
        seen_unknown = set()
        for f in j["failures"]:
            key = classify(f)
            if key and key in known:
                res.known(key, f)
                continue
            sig = (f["type"], f["op"], key)
            if sig in seen_unknown:
                continue
            seen_unknown.add(sig)
            path = common.save_replay(ctx.pid, f, "fail-%s-%s.json" % (f["type"], common.h(f)))
            res.violation("SafeInt<%s>: %s %s %s expected %s got %s%s" % (
                f["type"], f["a"], f["op"], f["b"], f["expected"], f["got"],
                " [root cause: %s]" % key if key else ""), f, path)
        if j["nfail"] and not j["failures"]:
            res.violation("stage %s reported %d failures" % (name, j["nfail"]), {"stage": name})
    nt = res.extra.pop("_nt", 0)
    res.nontrivial = nt     # measured count of distinct (enumerated) pairs with result within 2 of a boundary
    res.exhaustive = False  # the 8-bit (and thorough: 16-bit) spaces are exhaustive; wide types are sampled
    res.extra["exhaustive_spaces"] = ["int8_t/uint8_t all pairs (+,-,*)", "narrowing ctor 8/16-bit x 8/16-bit"] + (
        [] if ctx.quick else ["int16_t/uint16_t all 2^32 pairs (+,-,*)"])
    return common.finish(
        ctx, res, "exploration",
        "enumeration of all 8-bit operand pairs (thorough: all 16-bit pairs; quick: 16-bit pairs with an operand within "
        "64 of min/max/0 or 2 of a power of two), boundary-set x boundary-set for int/unsigned/long/size_t/long long, "
        "rapidcheck random pairs; non-trivial = exact result within 2 of a representability bound of T (counted over "
        "the enumerated stages only, where every pair is distinct by construction)",
        ["__int128 arithmetic of g++ as reference", "UBSan reports any signed overflow inside the implementation"])


def replay(ctx, path):
    common.build("build/ub/safeint_check")
    f = json.load(open(path))
    j, p = run_bin(["replay", f["type"], f["op"], f["a"], f["b"]])
    if j is None or j["nfail"]:
        print("VIOLATION property=%s replay=%s" % (ctx.pid, path))
        print("  " + (json.dumps(j["failures"]) if j else p.stderr[-500:]))
        return 1
    print("replay passes: %s" % path)
    return 0
