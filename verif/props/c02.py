"""C02 - the NL reader is total, memory-safe and reports only validated data.

Engine: libFuzzer target build/fuzz/fuzz_nlread (ASan+UBSan, NDEBUG) with the oracle inside the target:
validating recorder (index ranges, announced counts, nesting, EndInput), mp::Problem builder, NullNLHandler,
READ_BOUNDS_FIRST on/off, text / binary native / binary byte-swapped, string-vs-file differential with the file size
below / at / above a page multiple. Plus a generated set of targeted corruptions (hostile counts, indices, opcodes,
truncations) of valid files pushed through the same target, and a deterministic deep-nesting probe.
"""
import glob
import hashlib
import json
import os
import shutil
import subprocess
import sys
from concurrent.futures import ThreadPoolExecutor

from .. import common

BIN = os.path.join(common.BUILD, "fuzz", "fuzz_nlread")
CORPUS = os.path.join(common.ROOT, "corpus", "C02")
REGRESS = os.path.join(common.ROOT, "regress", "C02")
DICT = os.path.join(common.ROOT, "corpus", "nl.dict")
ENV = {"ASAN_OPTIONS": "detect_leaks=0:max_allocation_size_mb=1024:allocator_may_return_null=1:abort_on_error=0",
       "UBSAN_OPTIONS": "print_stacktrace=1:halt_on_error=1"}
HOSTILE = [b"-1", b"0", b"1", b"2147483646", b"2147483647", b"2147483648", b"4294967296", b"-2147483649", b"99999999999999999999", b"1e9", b"x"]


def env(stats=None):
    e = dict(os.environ)
    e.update(ENV)
    if stats:
        e["FUZZ_STATS"] = stats
    return e


def run_files(paths, stats=None, timeout=600):
    """Run the target on fixed inputs (no fuzzing). Returns (rc, stderr)."""
    p = subprocess.run([BIN, "-rss_limit_mb=6000", "-malloc_limit_mb=100000"] + paths, env=env(stats), stdout=subprocess.PIPE,
                       stderr=subprocess.PIPE, timeout=timeout)
    return p.returncode, p.stderr.decode("latin-1")


def confirm(path):
    """An artifact counts only if it fails again, 3 times out of 3, outside the fuzzing loop."""
    msgs = []
    for _ in range(3):
        rc, err = run_files([path])
        if rc == 0:
            return None
        msgs.append(err)
    return msgs[0]


def mutants(seed_files, n, salt):
    """Targeted corruptions of valid text NL seeds: one token replaced by a hostile value, or truncation after a line."""
    out = []
    k = 0
    for f in seed_files:
        d = open(f, "rb").read()
        ctl, body = d[:1], d[1:]
        if not body.startswith(b"g"):
            continue
        lines = body.split(b"\n")
        for li in range(len(lines)):
            toks = lines[li].split(b"\t")[0].split()
            for ti in range(len(toks)):
                h = int(hashlib.sha1(b"%d:%d:%d:%d" % (salt, k, li, ti)).hexdigest()[:8], 16)
                k += 1
                if h % 7:      # thin the cross product deterministically
                    continue
                t2 = list(toks)
                t2[ti] = HOSTILE[h % len(HOSTILE)] if not toks[ti][:1].isalpha() else toks[ti][:1] + HOSTILE[h % len(HOSTILE)]
                l2 = list(lines)
                l2[li] = (b" " if lines[li].startswith(b" ") else b"") + b" ".join(t2)
                out.append(bytes([(ctl[0] & 0xc7) | ((h >> 8) % 2 << 3)]) + b"\n".join(l2))
                if len(out) >= n:
                    return out
            if li % 5 == 0:
                out.append(ctl + b"\n".join(lines[:li + 1]))
    return out


def classify(err):
    if "deadly signal" in err and "C02-ORACLE-VIOLATION" in err:
        return "oracle:" + err.split("C02-ORACLE-VIOLATION:")[1].split("\n")[0].strip()[:80]
    for l in err.splitlines():
        if "runtime error:" in l:
            return "ubsan:" + l.split("runtime error:")[1].strip()[:80]
        if "ERROR: AddressSanitizer" in l:
            return "asan:" + l.split("AddressSanitizer:")[1].strip()[:60]
    return "crash"


def run(ctx):
    common.build("build/fuzz/fuzz_nlread")
    res = common.Result()
    known = {k for k, r in common.load_known(ctx.pid).items() if r.get("status") == "known"}
    work = os.path.join(common.ROOT, "work", "c02-%d" % os.getpid())
    shutil.rmtree(work, ignore_errors=True)
    os.makedirs(work)
    seeds = sorted(glob.glob(os.path.join(CORPUS, "*")))
    try:
        # ---- 1. regression inputs and seed corpus through the oracle
        reg = sorted(glob.glob(os.path.join(REGRESS, "*")))
        for f in reg + seeds:
            rc, err = run_files([f])
            if rc != 0:
                res.violation("saved input fails: %s: %s" % (os.path.basename(f), classify(err)), None, f)
        # ---- 2. targeted corruptions
        mdir = os.path.join(work, "mut")
        os.makedirs(mdir)
        muts = mutants(seeds, ctx.pick(6000, 60000), ctx.seed)
        # every text seed also through the file path at a multiple of the page size, one byte less and one byte more
        # (control byte: bit 3 = string-vs-file differential, bits 4-5 = size class), with both flag values
        for f in seeds:
            d = open(f, "rb").read()
            if d[1:2] == b"g":
                for padc in (1, 2, 3):
                    for fl in (0, 1):
                        muts.append(bytes([fl | 8 | (padc << 4)]) + d[1:])
        for i, b in enumerate(muts):
            open(os.path.join(mdir, "m%06d" % i), "wb").write(b)
        mstats = os.path.join(work, "mut.stats")
        chunks = [sorted(glob.glob(os.path.join(mdir, "*")))[i::common.NCPU] for i in range(common.NCPU)]
        with ThreadPoolExecutor(common.NCPU) as ex:
            outs = list(ex.map(lambda ch: run_files(ch, mstats) if ch else (0, ""), chunks))
        for (rc, err), ch in zip(outs, chunks):
            if rc != 0:
                # find the culprit by replaying individually
                for f in ch:
                    rc1, err1 = run_files([f])
                    if rc1 != 0:
                        key = classify(err1)
                        dst = os.path.join(common.REPLAYS, ctx.pid)
                        os.makedirs(dst, exist_ok=True)
                        path = os.path.join(dst, "mutant-" + hashlib.sha1(open(f, "rb").read()).hexdigest()[:16])
                        shutil.copy(f, path)
                        res.violation("targeted corruption: %s" % key, None, path)
                        break
        # ---- 3. coverage-guided campaign, one process per core
        runs = ctx.pick(250000, 3000000)

        def fuzz(i):
            cdir = os.path.join(work, "corpus%d" % i)
            os.makedirs(cdir)
            adir = os.path.join(work, "art%d" % i) + "/"
            os.makedirs(adir)
            st = os.path.join(work, "stats%d" % i)
            cmd = ["setarch", "-R", BIN, "-max_len=6000", "-runs=%d" % runs, "-seed=%d" % (ctx.seed * 1000 + i + 1), "-entropic=0",
                   "-dict=" + DICT, "-rss_limit_mb=6000", "-malloc_limit_mb=100000", "-timeout=60", "-print_final_stats=1",
                   "-artifact_prefix=" + adir, cdir, CORPUS]
            p = subprocess.run(cmd, env=env(st), stdout=subprocess.PIPE, stderr=subprocess.PIPE)
            return i, p.returncode, p.stderr.decode("latin-1")
        with ThreadPoolExecutor(common.NCPU) as ex:
            fz = list(ex.map(fuzz, range(common.NCPU)))
        execs = 0
        for i, rc, err in fz:
            for l in err.splitlines():
                if l.startswith("stat::number_of_executed_units:"):
                    execs += int(l.split(":")[-1])
            for art in glob.glob(os.path.join(work, "art%d" % i, "*")):
                base = os.path.basename(art)
                if base.startswith(("crash-", "leak-")):
                    msg = confirm(art)
                    if msg is None:
                        res.notes.append("artifact %s did not reproduce (3 replays)" % base)
                        continue
                    key = classify(msg)
                    dst = os.path.join(common.REPLAYS, ctx.pid)
                    os.makedirs(dst, exist_ok=True)
                    path = os.path.join(dst, base)
                    shutil.copy(art, path)
                    res.violation("libFuzzer artifact: %s" % key, None, path)
                else:
                    res.inconclusive += 1
                    res.notes.append("load-noise artifact %s (oom/timeout/slow-unit): not judged" % base)
        # ---- 4. what was covered: distinct corpus units, classified by replaying them with the stats hook
        units = {}
        for i in range(common.NCPU):
            for f in glob.glob(os.path.join(work, "corpus%d" % i, "*")):
                units[os.path.basename(f)] = f
        cstats = os.path.join(work, "corpus.stats")
        ulist = sorted(units.values())
        for k in range(0, len(ulist), 2000):
            run_files(ulist[k:k + 2000], cstats)
        tot = {"total": 0, "past_header": 0, "accepted": 0, "rej_header": 0, "rej_body": 0, "recorder": 0, "problem": 0, "null": 0, "diff_runs": 0, "page_multiple": 0, "diff_page_multiple_accepted": 0,
               "skipped_huge_header_for_problem_builder": 0}
        segs = {}
        if os.path.exists(cstats):
            for l in open(cstats):
                j = json.loads(l)
                for k in tot:
                    tot[k] += j.get(k, 0)
                for s, v in j["segs"].items():
                    segs[s] = segs.get(s, 0) + v
        camp = {"total": 0, "past_header": 0, "accepted": 0, "rej_header": 0, "rej_body": 0, "recorder": 0, "problem": 0, "null": 0, "diff_runs": 0, "page_multiple": 0, "diff_page_multiple_accepted": 0,
                "skipped_huge_header_for_problem_builder": 0}
        for i in range(common.NCPU):
            st = os.path.join(work, "stats%d" % i)
            if os.path.exists(st):
                for l in open(st):
                    j = json.loads(l)
                    for k in camp:
                        camp[k] += j.get(k, 0)
        res.evaluations = execs + len(muts) + len(seeds) + len(reg)
        res.nontrivial = tot["past_header"]
        res.extra["campaign_counters"] = camp
        res.extra["distinct_corpus_units"] = len(ulist)
        res.extra["distinct_units_breakdown"] = tot
        res.extra["targeted_corruptions"] = len(muts)
        res.labels.update({"handler:recorder": camp["recorder"], "handler:mp::Problem": camp["problem"], "handler:null": camp["null"],
                           "outcome:accepted": camp["accepted"], "outcome:rejected-in-header": camp["rej_header"],
                           "outcome:rejected-after-header": camp["rej_body"], "string-vs-file differential runs": camp["diff_runs"],
                           "string-vs-file differential on an accepted file of page-multiple size": camp["diff_page_multiple_accepted"]})
        for f in ulist[:3]:
            d = open(f, "rb").read()
            res.samples.append({"control_byte": d[0], "nl_prefix": d[1:120].decode("latin-1")})
        # ---- 5. deep nesting probe (recorded finding)
        deep = os.path.join(work, "deep.bin")
        body = ("g3 1 1 0\n 1 1 0 0 0 0\n 1 0\n 0 0\n 1 0 0\n 0 0 0 1\n 0 0 0 0 0\n 0 0\n 0 0\n 0 0 0 0 0\nC0\n" + "o16\n" * 200000 +
                "v0\nr\n3\nb\n3\n")
        open(deep, "wb").write(b"\x00" + body.encode())
        rc, err = run_files([deep])
        if rc != 0:
            key = "deep-nesting-stack-overflow" if "stack-overflow" in err else None
            if key in known:
                res.known(key, {"depth": 200000})
            else:
                dst = os.path.join(common.REPLAYS, ctx.pid)
                os.makedirs(dst, exist_ok=True)
                path = os.path.join(dst, "deep-nesting-200000")
                shutil.copy(deep, path)
                res.violation("200000-deep expression: %s" % classify(err), None, path)
    finally:
        shutil.rmtree(work, ignore_errors=True)
    return common.finish(
        ctx, res, "exploration",
        "libFuzzer executions (16 processes, seeds = generated valid NL in text/binary/byte-swapped + test/data) plus generated targeted "
        "corruptions; distinct_nontrivial = number of distinct corpus units (one per new coverage feature set) that got past the NL header, "
        "counted by replaying the merged corpus through the target's own counters",
        ["only crash-/leak- artifacts confirmed by 3 replays count; oom/timeout/slow-unit artifacts are load noise",
         "operator new is routed through malloc so that hostile sizes raise std::bad_alloc instead of aborting under ASan",
         "mp::Problem is not fed headers announcing more than 200000 items (allocation-size test of the sanitizer, counted)",
         "fuzzing input length <= 6000 bytes, so nesting depth stays below the stack limit; depth is probed separately"])


def replay(ctx, path):
    common.build("build/fuzz/fuzz_nlread")
    rc, err = run_files([path])
    if rc != 0:
        print("VIOLATION property=%s replay=%s" % (ctx.pid, path))
        print("  " + classify(err))
        return 1
    print("replay passes: %s" % path)
    return 0
