"""C07 - the automatic solution check reports a violation iff the model is violated.

Domain: (model without objective, accept-all configuration, check options, candidate). The candidate is a grid point of
the original variables together with the *true* value of every expression (forward evaluation of the delivered
functional constraints in exact rationals), optionally damaged in exactly one way by a margin that is either far above
or far below every tolerance.
Oracle: two-run protocol. Run 1 dumps the delivered model; run 2 scripts the solver to return the candidate and reads the
solve message / solve code: "Tolerance violations" (and code 150 with sol:chk:fail) is expected iff the reference
evaluator finds the NL model violated at the point, or the damage is far above tolerance; silence iff everything is
exact or far below tolerance.
"""
import json
import os
from fractions import Fraction as F

from hypothesis import strategies as st

from .. import common, conv, flat, gen, hyp, nl, vd
from .c12 import acc_table

RULE = ("Hypothesis: model x grid point x damage kind x check options; non-trivial = the model has a nonlinear or logical "
        "expression and the candidate is a damaged one or its undamaged twin; distinct by hash of (model, point, damage, options)")
BIG = F(1, 64)          # far above feastol 1e-6 / inttol 1e-5 (absolute and relative, values are of magnitude <= 100)
TINY = F(1, 2**40)      # ~9e-13, far below every tolerance


@st.composite
def cases(draw):
    allow = gen.FULL_EXACT - {"quadcmp"}
    m, info = draw(gen.models(max_vars=3, allow=allow, max_cons=2, max_lcons=2, with_obj=False, depth=2, budget=12))
    pick = draw(st.integers(0, 10**6))
    damage = draw(st.sampled_from(["none", "none", "bound", "integer", "aux", "tiny-bound", "tiny-aux", "none", "subtol-aux", "subtol-aux", "subtol-int", "subtol-int"]))
    which = draw(st.integers(0, 10**6))
    fail = draw(st.booleans())
    mode = draw(st.sampled_from([None, None, 3, 1 + 2 + 4 + 8, 1023]))
    return m, info, pick, damage, which, fail, mode


def forward(fm, x0):
    """True values of all delivered variables given the original ones (exact). None if not determined."""
    n = fm.nvars
    x = [None] * n
    for i, v in enumerate(x0):
        x[i] = v
    defs = {}
    for c in fm.cons:
        if c.kind in ("func", "linfunc", "quadfunc", "cond") and c.d.get("res_var", -1) >= 0:
            defs.setdefault(c.d["res_var"], c)
    progress = True
    while progress:
        progress = False
        for r, c in defs.items():
            if x[r] is not None:
                continue
            d = c.d
            if c.kind == "func":
                args = d["args"]
            elif c.kind == "cond":
                a = flat._alg(d["con"])
                args = a["vars"] + a["qvars1"] + a["qvars2"]
            else:
                a = flat._alg_expr(d["expr"])
                args = a["vars"] + a["qvars1"] + a["qvars2"]
            if any(x[i] is None for i in args):
                continue
            xx = [v if v is not None else F(0) for v in x]
            val = flat.func_value(c, xx)
            if val is None:
                return None
            x[r] = val
            progress = True
        for i in range(n):
            if x[i] is None and i not in defs and fm.lb[i] == fm.ub[i]:
                x[i] = fm.lb[i]
                progress = True
    if any(v is None for v in x):
        return None
    return x


def judge(n, info, pick, damage, which, fail, mode, res, known=()):
    acc = acc_table("all")
    # affine / quadratic defining constraints stay functional, so that every auxiliary variable is forward-evaluable
    acc["levels"]["LinearFunctionalConstraint"] = 2
    acc["levels"]["QuadraticFunctionalConstraint"] = 2
    base_opts = ["cvt:mip:eps=%s" % repr(2.0 ** -10)]
    run1 = conv.convert(n, acc, base_opts + ["sol:chk:mode=0"])
    cobj = dict(model=nl.model_to_obj(n), pick=pick, damage=damage, which=which, fail=fail, mode=mode,
                info=dict(ops=sorted(info["ops"]), nbprod=bool(info["nbprod"])))
    if common.alloc_limit(run1, res):
        return None
    if run1.sanitizer or run1.signal:
        return ("crash: %s" % common.crash_head(run1.err), cobj, "crash")
    fm = run1.dump
    if fm is None or not fm.complete:
        res.label("refused")
        return None
    pts, total = conv.grid(n, F(1, 2), cap=200)
    try:
        feas = [nl.feasible(n, p) for p in pts]
    except nl.Undefined:
        return None
    # half of the cases start from an NL-feasible point (when there is one), so that both verdicts are exercised
    fidx = [i for i, f in enumerate(feas) if f]
    k = fidx[(pick // 2) % len(fidx)] if (pick % 2 == 0 and fidx) else pick % len(pts)
    x0, nlfeas = pts[k], feas[k]
    x = forward(fm, x0)
    if x is None:
        res.label("aux-not-determined")
        return None
    norig = len(n.vars)
    expect = not nlfeas
    applied = "none"
    if damage in ("bound", "tiny-bound"):
        mrg = BIG if damage == "bound" else TINY
        j = which % norig
        up = (which // 7) % 2 == 1
        at_bound = (x0[j] == n.vars[j]["ub"]) if up else (x0[j] == n.vars[j]["lb"])
        # the tiny damage must not move the point: only a coordinate that already sits on that bound is nudged across it
        if not n.vars[j]["int"] and (damage == "bound" or at_bound) and n.vars[j]["lb"] != -nl.INF and n.vars[j]["ub"] != nl.INF:
            x[j] = n.vars[j]["ub"] + mrg if up else n.vars[j]["lb"] - mrg
            # the other values stay as computed for the undamaged point: expressions are then also off, which only adds violations
            if damage == "bound":
                expect = True
            applied = damage
    elif damage == "integer":
        ints = [j for j in range(norig) if n.vars[j]["int"] and fm.lb[j] < fm.ub[j]]
        if ints:
            j = ints[which % len(ints)]
            x[j] = x[j] + F(1, 4) if x[j] < fm.ub[j] else x[j] - F(1, 4)
            expect = True
            applied = damage
    elif damage == "subtol-int":
        # what MIP solvers routinely return: an integer (original or auxiliary, e.g. the binary of an indicator or of a reified
        # comparison) that is off by 2^-24, far inside sol:chk:inttol = 1e-5 and feastol = 1e-6 (coefficients are <= 10): the verdict
        # must be the one of the exact point. Not judged under the idealistic bits, which recompute expressions without tolerances.
        ints = [j for j in range(fm.nvars) if fm.type[j] == 1 and fm.lb[j] < fm.ub[j]]
        if ints and not (mode is not None and mode & (32 | 64 | 128 | 256)):
            j = ints[which % len(ints)]
            # three times out of four the binary of a delivered indicator constraint, when there is one: its value decides whether
            # the implied constraint is judged at all
            indb = sorted({c.d["bin_var"] for c in fm.cons if c.kind == "indicator" and c.d["bin_var"] in ints})
            if indb and (which // 5) % 4 != 0:
                j = indb[(which // 20) % len(indb)]
            down = (which // 11) % 3 != 0            # mostly downwards: truncation instead of rounding is the classical slip
            if x[j] <= fm.lb[j]:
                down = False                          # stay inside the bounds
            elif x[j] >= fm.ub[j]:
                down = True
            x[j] = x[j] - F(1, 2 ** 24) if down else x[j] + F(1, 2 ** 24)
            applied = damage
            if j in indb:
                res.label("subtol-int on an indicator binary")
    elif damage in ("aux", "tiny-aux", "subtol-aux"):
        # subtol-aux: the user raises the absolute tolerance to 1e-2 (relative 1e-6); an expression that is off by 2^-9 is then
        # within tolerance whatever its value is - in particular when the value is 0, where the relative test does not apply
        mrg = BIG if damage == "aux" else F(1, 512) if damage == "subtol-aux" else TINY
        if damage == "subtol-aux" and not nlfeas:
            damage = "none"
        # only a *used* numeric expression can be violated: its defining constraint carries a context (1 = result may not
        # exceed the value, 2 = may not fall below it, 3 = both); the damage goes in a violating direction
        ctx_of = {}
        for c in fm.cons:
            # (affine/quadratic defining constraints are not judged: the documented modes speak of non-linear expression values)
            if c.kind == "func" and c.d.get("res_var", -1) >= norig and c.d.get("ctx", 0) in (1, 2, 3):
                ctx_of[c.d["res_var"]] = c.d["ctx"]
        auxs = [i for i in sorted(ctx_of) if fm.type[i] != 1 and fm.lb[i] < fm.ub[i]]
        if damage == "subtol-aux":       # prefer an expression whose value is 0
            zero = [i for i in auxs if x[i] == 0]
            auxs = zero or auxs
        if auxs and damage != "none":
            i = auxs[which % len(auxs)]
            x[i] = x[i] - mrg if ctx_of[i] == 2 else x[i] + mrg
            if damage == "aux":
                expect = True
            applied = damage
    if applied.startswith("tiny") and not nlfeas:
        expect = True
    if applied == "tiny-bound" and mode is not None and mode & (32 | 64 | 128 | 256):
        # the idealistic bits recompute every expression from the variables "without considering possible tolerances" (option text of
        # sol:chk:mode, modeling-tools.rst): when the nudge across the bound flips a discontinuous expression (x <= 1 at x = 1 + 2^-40
        # inside a count), reporting the difference is the documented behaviour - such a case has no single expected verdict
        xr = forward(fm, x[:norig])
        if xr is None or any(xr[i] is None or abs(xr[i] - x[i]) > F(1, 2 ** 30) for i in range(norig, fm.nvars)):      # a continuous change stays near 2^-40
            res.label("not judged: tiny nudge flips a recomputed expression under an idealistic mode")
            return None
    opts = list(base_opts)
    if mode is not None:
        opts.append("sol:chk:mode=%d" % mode)
    if fail:
        opts.append("sol:chk:fail")
    if applied == "subtol-aux":
        opts += ["sol:chk:feastol=0.01", "sol:chk:feastolrel=1e-6"]
    cfg = ["primal %s" % vd.vec(x)]
    run2 = conv.convert(n, acc, opts, extra_cfg=cfg)
    if common.alloc_limit(run2, res):
        return None
    if run2.sanitizer or run2.signal:
        return ("crash in the solution check: %s" % common.crash_head(run2.err), cobj, "crash")
    if run2.sol is None:
        return ("no .sol after the solution check: rc=%s %s" % (run2.rc, run2.err[:200]), cobj, "no-sol")
    msg = "\n".join(run2.sol.message)
    got = "Tolerance violations" in msg or "MaxAbs [Name]" in msg
    aborted = "Solution check aborted" in msg
    code = run2.sol.code
    nt = bool(info["ops"] - {"add", "sub", "neg", "mulc", "sum"}) or bool(n.lcons)
    res.case(common.h(cobj), nt and (applied != "none" or damage == "none"), labels=["damage:" + applied, "expect:%s" % expect, "observed:%s" % got,
                                                                                   "fail-option:%s" % fail, "mode:%s" % mode],
             sample=dict(model=nl.show_model(n)[:200], point=[str(v) for v in x0], damage=applied, nl_feasible=nlfeas, expected_violation=expect,
                         reported=got, solve_code=code))
    problems = []
    if aborted:
        problems.append(("check-aborted", "solution check aborted: %s" % msg[:300]))
    elif got != expect:
        problems.append(("missed-violation" if expect else "false-violation",
                         "solution check %s a violation but %s expected: point %s (NL feasible: %s), damage %s; message: %s" % (
                             "reports" if got else "does not report", "one is" if expect else "none is", [str(v) for v in x0], nlfeas, applied,
                             msg[:400].replace("\n", " / "))))
    elif fail and (code == 150) != expect:
        problems.append(("fail-code", "sol:chk:fail: solve code %s, violation expected %s" % (code, expect)))
    elif not fail and code != 0:
        problems.append(("code-changed", "without sol:chk:fail the solve code became %s" % code))
    from .. import findings
    for key, desc in problems:
        k2 = findings.classify("C07", key, cobj, desc)
        if k2 is not None and k2 in known:
            res.known(k2, {"desc": desc[:200]})
            continue
        return (desc + " | mode %s fail %s | model %s" % (mode, fail, nl.show_model(n)[:300]), cobj, k2)
    return None


def run(ctx):
    common.build("build/vd/vdriver")
    known = {k for k, r in common.load_known(ctx.pid).items() if r.get("status") == "known"}

    def check(case, res):
        m, info, pick, damage, which, fail, mode = case
        n, _, _ = nl.normalize(m)
        return judge(n, info, pick, damage, which, fail, mode, res, known)
    res = hyp.run_property(ctx, cases(), check, ctx.pick(6000, 100000), known_keys=known, time_budget=ctx.pick(300, 900))
    import glob
    for f in sorted(glob.glob(os.path.join(common.ROOT, "regress", ctx.pid, "*.json"))):
        c = json.load(open(f))
        v = judge(nl.model_from_obj(c["model"]), dict(ops=set(c["info"]["ops"]), nbprod=c["info"]["nbprod"]), c["pick"], c["damage"], c["which"], c["fail"],
                  c["mode"], res, known)
        if v:
            res.violation("regression input fails again: %s: %s" % (os.path.basename(f), v[0]), None, f)
    return common.finish(ctx, res, "exploration", RULE,
                         ["accept-all configuration: every auxiliary variable is functionally determined and forward-evaluated exactly",
                          "damage margins are 2^-6 (far above) or 2^-40 (far below) the tolerances; the band in between is not generated",
                          "models have no objective (objective value checks are not part of this check)"])


def replay(ctx, path):
    common.build("build/vd/vdriver")
    c = json.load(open(path))
    n = nl.model_from_obj(c["model"])
    info = dict(ops=set(c["info"]["ops"]), nbprod=c["info"]["nbprod"])
    res = common.Result()
    known = {k for k, r in common.load_known(ctx.pid).items() if r.get("status") == "known"}
    v = judge(n, info, c["pick"], c["damage"], c["which"], c["fail"], c["mode"], res, known)
    if v:
        print("VIOLATION property=%s replay=%s" % (ctx.pid, path))
        print("  " + v[0][:900])
        return 1
    print("replay passes: %s" % path)
    return 0
