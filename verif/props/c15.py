"""C15 - an interrupt is never lost and never delivered with inconsistent state.

Schedule exploration with the schedule owned by the harness: src/solver.cc, compiled with -DMP_VERIF_HOOKS, calls out at named
points of SignalHandler's constructor / SetHandler / destructor; build/hooks/sig_shim raises SIGINT/SIGTERM exactly there (and
between the steps of a generated scenario) in a forked child and logs what the registered callbacks and the stop query see.
Hypothesis generates scenarios (step sequence + 1..3 signal placements); a reference model of the statement judges the log.
"""
import os
import subprocess

from hypothesis import strategies as st

from .. import common, hyp

BIN = os.path.join(common.BUILD, "hooks", "sig_shim")
RULE = ("Hypothesis: scenario (construct, registrations, queries, destroy) x 1..3 signals placed at call-out points or step boundaries; "
        "non-trivial = a signal lands inside the constructor, SetHandler or destructor and a callback is registered; distinct by hash of the scenario")
CTOR = ["ctor:sigint-installed", "ctor:sigterm-installed", "ctor:done"]
SETH = ["sethandler:begin", "sethandler:handler-cleared", "sethandler:handler-stored", "sethandler:done"]
DTOR = ["dtor:begin", "dtor:interrupter-reset", "dtor:stop-set", "dtor:handler-reset", "dtor:done"]

_proc = {}


def shim():
    p = _proc.get(os.getpid())
    if p is None or p.poll() is not None:
        p = subprocess.Popen([BIN, "-"], stdin=subprocess.PIPE, stdout=subprocess.PIPE, stderr=subprocess.PIPE, env=common.env_with())
        _proc[os.getpid()] = p
    return p


def run_scenario(sc):
    p = shim()
    lines = ["sig %s %d %s" % tuple(s) for s in sc["sigs"]] + list(sc["steps"]) + ["end"]
    p.stdin.write(("\n".join(lines) + "\n").encode())
    p.stdin.flush()
    out = []
    while True:
        l = p.stdout.readline()
        if not l:
            err = p.stderr.read().decode("latin-1", "replace")
            _proc.pop(os.getpid(), None)
            return None, err
        l = l.decode().rstrip("\n")
        if l == "--":
            break
        out.append(l.split())
    return out, ""


@st.composite
def scenarios(draw):
    nops = draw(st.integers(0, 5))
    ops = [draw(st.sampled_from(["reg 0", "reg 1", "reg 2", "query", "query"])) for _ in range(nops)]
    steps = ["construct"] + ops
    if draw(st.integers(0, 4)) > 0:
        steps.append("destroy")
        if draw(st.booleans()):
            steps.append("query")
    nreg = sum(1 for s in steps if s.startswith("reg"))
    has_destroy = "destroy" in steps
    cands = [(p, 1) for p in CTOR] + [("step:%d" % i, 1) for i in range(1, len(steps))] + [("final", 1)]
    for k in range(1, nreg + 1):
        cands += [(p, k) for p in SETH]
    if has_destroy:
        cands += [(p, 1) for p in DTOR]
    nsig = draw(st.sampled_from([1, 1, 2, 2, 3]))
    sigs = []
    for _ in range(nsig):
        p, occ = draw(st.sampled_from(cands))
        # weight towards the windows
        if draw(st.booleans()):
            p2, occ2 = draw(st.sampled_from([c for c in cands if c[0].startswith(("ctor", "sethandler", "dtor"))]))
            p, occ = p2, occ2
        signo = "int" if p == "ctor:sigint-installed" else draw(st.sampled_from(["int", "term"]))     # SIGTERM's handler is not installed yet at that point
        sigs.append([p, occ, signo])
    # two signals at the same (point, occurrence) cannot both be delivered there: keep the first
    seen, uniq = set(), []
    for s in sigs:
        if (s[0], s[1]) not in seen:
            seen.add((s[0], s[1]))
            uniq.append(s)
    return {"steps": steps, "sigs": uniq}


def judge(sc, log):
    """Reference model of the property over the event log. Returns None or a description."""
    reg = None            # completed registration (callback k with data k)
    inprog = None         # (old, new) while SetHandler runs, None otherwise
    changed = False       # SetHandler has passed its first store
    alive = False         # handler object constructed and destructor not finished
    destructing = False
    destroyed = False
    installed = False
    sig_alive = 0         # signals delivered before the destructor reset the counter
    sig_any_alive = False
    counter_reset = False
    pending_reg = None
    breaks_expected = 0
    i = 0
    n = len(log)
    terminated = False
    while i < n:
        e = log[i]
        kind = e[0]
        if kind == "X":
            if e[1] == "reg":
                pending_reg = int(e[2])
        elif kind == "P":
            pt = e[1]
            if pt == "ctor:sigint-installed":
                installed = True
                alive = True
            elif pt == "sethandler:begin":
                inprog = (reg, pending_reg)
                changed = False
            elif pt in ("sethandler:handler-cleared", "sethandler:handler-stored"):
                changed = True
            elif pt == "sethandler:done":
                reg, inprog, changed = pending_reg, None, False
            elif pt == "dtor:begin":
                destructing = True
            elif pt == "dtor:stop-set":
                counter_reset = True
            elif pt == "dtor:done":
                destructing, alive, destroyed = False, False, True
        elif kind == "S":
            if not installed:
                return "harness: signal before installation"
            if not destroyed:
                breaks_expected += 1
            third = False
            if not counter_reset:
                sig_alive += 1
                sig_any_alive = True
                third = sig_alive >= 3
            nxt = log[i + 1] if i + 1 < n else None
            got_c = nxt is not None and nxt[0] == "C"
            if third:
                # the process must end here: no callback, nothing further
                rest = [x for x in log[i + 1:] if x[0] not in ("B", "EXIT")]
                ex = [x for x in log if x[0] == "EXIT"]
                if rest or not ex or ex[0][1:] != ["exited", "1"]:
                    return "third interrupt did not terminate the process (events after it: %s, exit: %s)" % (rest[:3], ex)
                terminated = True
                break
            if destroyed:
                if got_c:
                    return "callback %s called after the handler object was destroyed" % nxt[1:]
            else:
                allowed = set()
                if inprog is not None and changed:
                    old, new = inprog
                    allowed = {None}
                    if old is not None:
                        allowed.add((old, old))
                    allowed.add((new, new))
                elif inprog is not None:
                    allowed = {(inprog[0], inprog[0])} if inprog[0] is not None else {None}
                elif destructing:
                    allowed = {None} | ({(reg, reg)} if reg is not None else set())
                else:
                    allowed = {(reg, reg)} if reg is not None else {None}
                got = (int(nxt[1]), nxt[2]) if got_c else None
                if got is not None:
                    got = (got[0], int(got[1]) if got[1].isdigit() else got[1])
                if got not in allowed:
                    return "signal at %s: callback/data seen %s, allowed %s" % (_where(log, i), got, sorted(map(str, allowed)))
                if got_c:
                    i += 1
        elif kind == "C":
            return "callback %s without a signal" % e[1:]
        elif kind == "Q":
            want = "1" if sig_any_alive else "0"
            if e[1] != want:
                return "stop query returns %s after %d signal(s) since installation" % (e[1], sig_alive)
        elif kind == "B":
            if not terminated and int(e[1]) != breaks_expected:
                return "%s <BREAK> messages for %d signals delivered while the handler object existed" % (e[1], breaks_expected)
        elif kind == "EXIT":
            if e[1] != "exited":
                return "child ended abnormally: %s" % e[1:]
            if e[2] != "0" and not (counter_reset and e[2] == "1"):
                return "child exit status %s without a third interrupt" % e[2]
        i += 1
    return None


def _where(log, i):
    for j in range(i - 1, -1, -1):
        if log[j][0] == "P":
            return log[j][1]
    return "?"


def check(sc, res):
    log, err = run_scenario(sc)
    if log is None or any(e[0] == "EXIT" and e[1:3] == ["signaled", "14"] for e in log):
        # the helper server died or the child's 20 s guard timer fired (seen once under a load of three concurrent campaigns):
        # decided by a second execution with a fresh server - a real crash or hang shows again
        res.label("re-executed after helper failure or guard expiry")
        p = _proc.pop(os.getpid(), None)
        if p is not None and p.poll() is None:
            p.kill()
        log, err = run_scenario(sc)
    window = any(s[0].startswith(("ctor", "sethandler", "dtor")) for s in sc["sigs"])
    nontrivial = window and any(s.startswith("reg") for s in sc["steps"])
    res.case(common.h(sc), nontrivial, sample=sc if nontrivial else None,
             labels=["signals:%d" % len(sc["sigs"])] + ["at:" + s[0].split(":")[0] for s in sc["sigs"]])
    if log is None:
        return ("sig_shim died: %s" % (common.crash_head(err) or err[-300:]), sc, "crash")
    delivered = sum(1 for e in log if e[0] == "S")
    res.label("delivered:%d" % delivered)
    v = judge(sc, log)
    if v:
        return (v, sc, None)
    return None


def sweep():
    """Every single-signal position of one canonical scenario, both signals."""
    steps = ["construct", "reg 0", "query", "reg 1", "query", "destroy", "query"]
    pts = [(p, 1) for p in CTOR] + [(p, k) for k in (1, 2) for p in SETH] + [(p, 1) for p in DTOR] + [("step:%d" % i, 1) for i in range(1, len(steps))] + [("final", 1)]
    for p, occ in pts:
        for signo in ("int", "term"):
            if p == "ctor:sigint-installed" and signo == "term":
                continue
            yield {"steps": steps, "sigs": [[p, occ, signo]]}


def run(ctx):
    common.build("build/hooks/sig_shim")
    res = hyp.run_property(ctx, scenarios(), check, ctx.pick(30000, 400000))
    for sc in sweep():
        v = check(sc, res)
        if v:
            path = common.save_replay(ctx.pid, sc)
            res.violation("sweep: " + v[0], None, path)
    import glob
    import json
    for f in sorted(glob.glob(os.path.join(common.ROOT, "regress", ctx.pid, "*.json"))):
        sc = json.load(open(f))
        v = check(sc, res)
        if v:
            res.violation("regression input fails again: %s: %s" % (os.path.basename(f), v[0]), None, f)
    return common.finish(ctx, res, "exploration", RULE,
                         ["signals are delivered synchronously (raise) at the call-out points and at step boundaries: every position the statement "
                          "distinguishes between two stores is covered, positions inside a single store are not (they are atomic)",
                          "a signal before both handlers are installed is outside the statement (SIGTERM at ctor:sigint-installed is not generated)",
                          "while SetHandler is between its stores, or the destructor is running, the old pair, the new pair or no callback are all accepted - never a mixed pair",
                          "the third interrupt is judged only when all three arrive before the destructor resets the counter",
                          "the hook only adds call-outs (MP_VERIF_HOOKS); the statements between them are the production code"])


def replay(ctx, path):
    import json
    common.build("build/hooks/sig_shim")
    sc = json.load(open(path))
    res = common.Result()
    v = check(sc, res)
    if v:
        print("VIOLATION property=%s replay=%s" % (ctx.pid, path))
        print("  " + v[0][:600])
        return 1
    print("replay passes: %s" % path)
    return 0
