"""C08 - the matrix-based model API writes the given LP/QP and un-permutes solutions.

Engine: rapidcheck inside build/prod/easy_shim: a generated matrix model (column types and bounds, sparse rows, objective
with offset and optional linear part, Hessian in either declared format with diagonal / off-diagonal / duplicate / one-triangle
entries, warm starts, suffixes, names; text or binary, comments) goes through mp::NLModel and NLSolver::LoadModel; the file is
read back with the repository's NL reader (mp::Problem and a recording handler) and compared up to the permutation the
writer reports: bounds and integrality per original column, every row and the objective as *functions* evaluated at test
points, ranges, sense, warm starts, suffixes, name files. Then a generated .sol file for the written problem is read through
NLSolver::ReadSolution and compared in the caller's order (primal, dual, suffixes, recomputed objective value).
"""
import glob
import json
import os
import shutil
import subprocess
from concurrent.futures import ThreadPoolExecutor

from .. import common

BIN = os.path.join(common.BUILD, "prod", "easy_shim")


def replay_file(path):
    p = subprocess.run([BIN, "replay", path], env=common.env_with(), stdout=subprocess.PIPE, stderr=subprocess.PIPE, text=True)
    return p.returncode, (p.stdout + p.stderr).strip()


def run(ctx):
    common.build("build/prod/easy_shim")
    res = common.Result()
    reg = os.path.join(common.ROOT, "regress", ctx.pid)
    for f in sorted(glob.glob(os.path.join(reg, "*.txt"))):
        rc, out = replay_file(f)
        res.evaluations += 1
        res.labels["regress_inputs"] += 1
        if rc != 0:
            res.violation("regression input fails again: %s: %s" % (os.path.basename(f), common.crash_head(out) or out[:300]), None, f)
    n = 1500                        # per process; rapidcheck slows down super-linearly, so many short runs
    jobs = common.NCPU * ctx.pick(16, 96)
    work = os.path.join(common.ROOT, "work", "c08-%d" % os.getpid())
    os.makedirs(work, exist_ok=True)

    def one(i):
        mode = "rc"
        failp = os.path.join(work, "fail%d.txt" % i)
        e = common.env_with(dict(RC_PARAMS="seed=%d max_success=%d max_size=80" % (ctx.seed * 1000 + i + 1, n), EASY_FAIL=failp))
        p = subprocess.run([BIN, mode], env=e, stdout=subprocess.PIPE, stderr=subprocess.PIPE, text=True)
        j = None
        for l in p.stdout.splitlines():
            if l.startswith('{"ok"'):
                j = json.loads(l)
        return i, mode, p, j, failp
    try:
        with ThreadPoolExecutor(common.NCPU) as ex:
            outs = list(ex.map(one, range(jobs)))
        nt = 0
        for i, mode, p, j, failp in outs:
            if j is None:
                path = None
                if os.path.exists(failp):
                    path = os.path.join(common.REPLAYS, ctx.pid, "crash-%d.txt" % i)
                    os.makedirs(os.path.dirname(path), exist_ok=True)
                    shutil.copy(failp, path)
                res.violation("easy_shim %s aborted (rc=%s): %s" % (mode, p.returncode, common.crash_head(p.stderr) or p.stderr[-300:]), {"stderr": p.stderr[-2000:]}, path)
                continue
            res.evaluations += j["cases"]
            nt += j["distinct_nontrivial"]
            for k, v in j["labels"].items():
                res.labels[k] += v
            res.labels["skipped_known"] += j.get("skipped_known", 0)
            for s in j["samples"][:1]:
                if len(res.samples) < 8:
                    res.samples.append(s)
            if not j["ok"]:
                path = os.path.join(common.REPLAYS, ctx.pid, "fail-%s.txt" % common.h(open(failp).read()))
                os.makedirs(os.path.dirname(path), exist_ok=True)
                shutil.copy(failp, path)
                res.violation(j["fail"][:600], None, path)
        res.nontrivial = nt
    finally:
        shutil.rmtree(work, ignore_errors=True)
    return common.finish(ctx, res, "exploration",
                         "rapidcheck-generated matrix models; non-trivial = mixed integer/continuous columns, >= 1 row, a Hessian or suffixes, and a returned "
                         "primal vector; distinct by hash of a digest of the model within a process",
                         ["the quadratic part is 0.5 * sum over the given entries of q * x_row * x_index in both declared formats (what NLModel::ComputeObjValue "
                          "documents and computes); the meaning of the 'triangular' declaration beyond that is not specified by the API and is not judged",
                          "rows and the objective are compared as functions at 4-10 test points (relative tolerance 1e-9), bounds and ranges bit for bit",
                          "bounds of magnitude DBL_MAX mean 'no bound'",
                          "the .sol file for the way back is written by the harness in the documented text format"])


def replay(ctx, path):
    common.build("build/prod/easy_shim")
    rc, out = replay_file(path)
    if rc != 0:
        print("VIOLATION property=%s replay=%s" % (ctx.pid, path))
        print("  " + out[:600])
        return 1
    print("replay passes: %s" % path)
    return 0
