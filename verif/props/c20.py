"""C20 - the exported reformulation graph is well-formed and complete.

Domain: C19's (model, acceptance, names) domain with cvt:writegraph; names with characters that need JSON escaping,
infinite bounds, extreme numbers.
Oracle: strict JSON parse of every line; presence of all NL and delivered items; exactly one consistent status record per
created constraint; link records refer to existing node classes within range; final=1 set == constraints actually delivered.
"""
import json
import re
from fractions import Fraction as F

from hypothesis import strategies as st

from .. import common, conv, gen, hyp, nl
from .c12 import acc_table

RULE = ("Hypothesis: model x acceptance x names (incl. names needing JSON escaping) with cvt:writegraph; non-trivial = the graph has "
        "link records of >= 2 link types and (a name needing escaping or an infinite bound); distinct by hash of inputs")

SHORT = {"LinConRange": "_linrange", "LinConLE": "_linle", "LinConEQ": "_lineq", "LinConGE": "_linge",
         "QuadConRange": "_quadrange", "QuadConLE": "_quadle", "QuadConEQ": "_quadeq", "QuadConGE": "_quadge",
         "LinearFunctionalConstraint": "_linfunccon", "QuadraticFunctionalConstraint": "_quadfunccon",
         "MaxConstraint": "_max", "MinConstraint": "_min", "AbsConstraint": "_abs", "AndConstraint": "_and", "OrConstraint": "_or",
         "CondLinConEQ": "_condlineq", "CondLinConLE": "_condlinle", "CondLinConLT": "_condlinlt", "CondLinConGE": "_condlinge",
         "CondLinConGT": "_condlingt", "CondQuadConEQ": "_condquadeq", "CondQuadConLE": "_condquadle", "CondQuadConLT": "_condquadlt",
         "CondQuadConGE": "_condquadge", "CondQuadConGT": "_condquadgt", "NotConstraint": "_not", "DivConstraint": "_div",
         "IfThenConstraint": "_ifthen", "ImplicationConstraint": "_impl", "AllDiffConstraint": "_alldiff",
         "NumberofConstConstraint": "_numberofconst", "NumberofVarConstraint": "_numberofvar", "CountConstraint": "_count",
         "ExpConstraint": "_exp", "ExpAConstraint": "_expa", "LogConstraint": "_log", "LogAConstraint": "_loga", "PowConstraint": "_pow",
         "SinConstraint": "_sin", "CosConstraint": "_cos", "TanConstraint": "_tan", "AsinConstraint": "_asin", "AcosConstraint": "_acos",
         "AtanConstraint": "_atan", "SinhConstraint": "_sinh", "CoshConstraint": "_cosh", "TanhConstraint": "_tanh",
         "AsinhConstraint": "_asinh", "AcoshConstraint": "_acosh", "AtanhConstraint": "_atanh",
         "IndicatorLinConLE": "_indle", "IndicatorLinConEQ": "_indeq", "IndicatorLinConGE": "_indge",
         "IndicatorQuadConLE": "_indquadle", "IndicatorQuadConEQ": "_indquadeq", "IndicatorQuadConGE": "_indquadge",
         "PLConstraint": "_pl", "SOS1Constraint": "_sos1", "SOS2Constraint": "_sos2", "ComplementarityLinear": "_compl",
         "ComplementarityQuadratic": "_complquad", "QuadraticConeConstraint": "_quadcone",
         "RotatedQuadraticConeConstraint": "_rotatedquadcone", "PowerConeConstraint": "_powercone",
         "ExponentialConeConstraint": "_expcone", "GeometricConeConstraint": "_geomcone", "UnaryEncodingConstraint": "_uenc"}

NAME_POOL = ["x", "y['a b']", "z[1,2]", "q[\"NY\"]", "w['back\\slash']", "t['tab\there']", "c['{brace}']", "u", "v[3]", "k['é']", "n['a\"b\"c']", "ctl\x01one", "vt\x0bx", "esc\x1b[0m"]   # incl. control characters other than tab/CR/LF, without any quote


@st.composite
def cases(draw):
    allow = gen.FULL_EXACT | (frozenset(["ext"]) if draw(st.integers(0, 4)) == 0 else frozenset())
    m, info = draw(gen.models(max_vars=4, depth=3, allow=allow))
    mode = draw(st.sampled_from([0, 1, 2, 3, 2]))
    base = draw(st.lists(st.sampled_from(NAME_POOL), min_size=1, max_size=5))
    accmode = draw(st.sampled_from(["all", "none", "typical", "none"]))
    opts = draw(gen.cvt_options())
    return m, info, mode, base, accmode, opts


def strict_parse(line):
    def bad(c):
        raise ValueError("non-finite constant %s" % c)
    return json.loads(line, parse_constant=bad)


_NONFINITE = re.compile(r'(?<![\w"\\.])-?(?:inf|nan)(?![\w"])')


def nonfinite_only(line):
    """True if the line is a JSON object once bare inf / -inf / nan number tokens outside strings are replaced by 0."""
    out, instr, i = [], False, 0
    while i < len(line):          # blank out string contents so that the pattern cannot match inside a name
        ch = line[i]
        if instr:
            if ch == "\\":
                out.append("xx"); i += 2; continue
            if ch == '"':
                instr = False
            out.append(ch if ch == '"' else "x")
        else:
            if ch == '"':
                instr = True
            out.append(ch)
        i += 1
    blank = "".join(out)
    if not _NONFINITE.search(blank):
        return False
    try:
        return isinstance(strict_parse(_NONFINITE.sub("0", blank)), dict)
    except ValueError:
        return False


def model_undefined_somewhere(n):
    """True if some expression of the model has no value (nl.Undefined) at a sample point inside the variable bounds."""
    import itertools
    axes = []
    for v in n.vars:
        lb, ub = v["lb"], v["ub"]
        lo = lb if lb != -nl.INF else min(F(-3), ub if ub != nl.INF else F(-3))
        hi = ub if ub != nl.INF else max(F(3), lo)
        cand = [lo, hi, F(0), F(1), F(-1), F(1, 2), F(3, 2), F(-3, 2), F(2)]
        if v["int"]:
            cand = [c for c in cand if c.denominator == 1]
        vals = []
        for c in cand:
            if lo <= c <= hi and c not in vals:
                vals.append(c)
        axes.append(vals[:6] or [lo])
    roots = [c["expr"] for c in n.cons if c.get("expr") is not None] + list(n.lcons) + [o["expr"] for o in n.objs if o.get("expr") is not None] + \
            [d["expr"] for d in n.dvars if d.get("expr") is not None]
    nodes = [e for r in roots for e in nl.walk(r)]      # every subexpression by itself: evaluation of a root may skip a branch
    for p in itertools.islice(itertools.product(*axes), 300):
        for e in nodes:
            try:
                nl.ev(e, list(p), n)
            except nl.Undefined:
                return True
            except Exception:
                pass
    return False


def judge(n, mode, base, accmode, opts, res, known=()):
    from .c19 import make_names
    nv, ndv = len(n.vars), len(n.dvars)
    nalg, nlog, nobj = len(n.cons), len(n.lcons), len(n.objs)
    col = make_names(base, nv + ndv, "V", False)
    row = make_names(base, nalg + nlog + nobj, "C", False)
    extra = {"m.col": ("\n".join(col) + "\n").encode("utf-8"), "m.row": ("\n".join(row) + "\n").encode("utf-8")}
    acc = acc_table(accmode)
    o = [x for x in opts if not x.startswith("cvt:names")] + ["cvt:names=%d" % mode, "cvt:mip:eps=%s" % repr(2.0 ** -10), "cvt:writegraph=g.jsonl"]
    run = conv.convert(n, acc, o, extra_files=extra, keep=True)
    import os, shutil
    try:
        gp = os.path.join(run.dir, "g.jsonl")
        gtext = open(gp, "rb").read().decode("utf-8", "replace") if os.path.exists(gp) else None
    finally:
        shutil.rmtree(run.dir, ignore_errors=True)
    cobj = dict(model=nl.model_to_obj(n), mode=mode, base=base, accmode=accmode, opts=opts)
    if common.alloc_limit(run, res):
        return None
    if run.sanitizer or run.signal:
        return ("crash: %s" % common.crash_head(run.err), cobj, "crash")
    fm = run.dump
    problems = []
    if gtext is None:
        if fm is not None and fm.complete:
            return ("model converted but no graph file written", cobj, "no-graph")
        res.label("refused-before-graph")
        return None
    recs = []
    for ln, line in enumerate(gtext.split("\n")):
        if not line:
            continue
        try:
            r = strict_parse(line)
            if not isinstance(r, dict):
                raise ValueError("not an object")
            recs.append(r)
        except ValueError as e:
            if nonfinite_only(line) and model_undefined_somewhere(n):
                # the quantifier is over NaN-free models: an expression of this one is undefined (division by zero, negative base with a
                # fractional power, ...) at a point inside the bounds, and the only thing wrong with the line is a bare inf/nan number
                res.label("not judged: inf/nan number in the export of a model with an undefined expression")
                return None
            problems.append(("invalid-json-line", "line %d is not valid JSON (%s): %r" % (ln + 1, str(e)[:60], line[:160])))
            break
    converted = fm is not None and fm.complete
    needs_escape = mode >= 1 and any(any(ch in b for ch in '"\\\t') for b in base)
    if not problems and converted:
        created = {}
        status = {}
        var_recs = set()
        nl_cons = set()
        nl_objs = set()
        objs_d = set()
        links = []
        for r in recs:
            if "VAR_index" in r:
                var_recs.add(r["VAR_index"])
            elif "NL_CON_TYPE" in r:
                nl_cons.add(r["index"])
            elif "NL_OBJECTIVE_index" in r:
                nl_objs.add(r["NL_OBJECTIVE_index"])
            elif "OBJECTIVE_index" in r:
                objs_d.add(r["OBJECTIVE_index"])
            elif "CON_TYPE" in r and "index" in r:
                key = (r["CON_TYPE"], r["index"])
                if "final" in r:
                    status.setdefault(key, []).append(r)
                else:
                    created.setdefault(key, []).append(r)
            elif "link_index" in r:
                links.append(r)
        for i in range(fm.nvars):
            if i not in var_recs:
                problems.append(("missing-var-record", "variable %d (of %d delivered) has no VAR_index record" % (i, fm.nvars)))
                break
        for i in range(nalg + nlog):
            if i not in nl_cons:
                problems.append(("missing-nl-con-record", "NL constraint %d has no NL_CON_TYPE record" % i))
                break
        if nobj and not nl_objs:
            problems.append(("missing-nl-obj-record", "NL objective has no record"))
        for i in range(len(fm.objs)):
            if i not in objs_d:
                problems.append(("missing-obj-record", "delivered objective %d has no OBJECTIVE_index record" % i))
        for key in created:
            st_ = status.get(key, [])
            if len(st_) != 1:
                problems.append(("status-record-count", "constraint %s has %d status records (expected exactly 1)" % (key, len(st_))))
                break
            s = st_[0]
            unused, bridged, final = s.get("unused"), s.get("bridged"), s.get("final")
            kinds = (1 if unused else 0) + (1 if (bridged and not unused) else 0) + (1 if final else 0)
            if kinds != 1 or (final and bridged):
                problems.append(("status-inconsistent", "constraint %s status unused=%s bridged=%s final=%s is not exactly one of "
                                 "unused/reformulated/delivered" % (key, unused, bridged, final)))
                break
        for key in status:
            if key not in created:
                problems.append(("status-without-creation", "status record for %s which was never created" % (key,)))
                break
        # final set == delivered set (count per type)
        fin = {}
        for key, st_ in status.items():
            if st_[0].get("final"):
                fin[key[0]] = fin.get(key[0], 0) + 1
        deliv = {}
        for c in fm.cons:
            sname = SHORT.get(c.type, c.type)
            deliv[sname] = deliv.get(sname, 0) + 1
        if fin != deliv:
            problems.append(("final-set-mismatch", "constraints marked final %s != constraints handed to the ModelAPI %s" % (fin, deliv)))
        # link records
        sizes = {"src_vars()": nv, "src_cons()": nalg + nlog, "src_objs()": max(len(fm.objs), nobj), "dest_vars()": fm.nvars, "dest_objs()": len(fm.objs)}
        gsz = {}
        for c in fm.cons:
            gsz[c.group] = gsz.get(c.group, 0) + 1
        for g, k in gsz.items():
            sizes["dest_cons(%d)" % g] = k
        for (t, i) in created:
            sizes[t] = max(sizes.get(t, 0), i + 1)
        ltypes = set()
        for r in links:
            ltypes.add(r.get("link_type"))
            for side in ("src_nodes", "dest_nodes"):
                for nd in r.get(side, []):
                    for name, rng in nd.items():
                        lo, hi = (rng, rng) if isinstance(rng, int) else (rng[0], rng[-1])
                        if name not in sizes:
                            problems.append(("link-unknown-node", "link %s refers to node class %r which has no items (known: %s)" % (
                                r["link_index"], name, sorted(sizes))))
                        elif lo < 0 or hi >= sizes[name] or lo > hi:
                            problems.append(("link-range", "link %s refers to %s[%s..%s] but the class has %d items" % (
                                r["link_index"], name, lo, hi, sizes[name])))
            if problems:
                break
        inf_bound = any(v["lb"] == -nl.INF or v["ub"] == nl.INF for v in n.vars)
        res.case(common.h(cobj), len(ltypes) >= 2 and (needs_escape or inf_bound), labels=["mode=%d" % mode, "acc=" + accmode] + ["link:%s" % t for t in ltypes],
                 sample=dict(model=nl.show_model(n)[:160], records=len(recs), links=len(links), link_types=sorted(ltypes), names=base[:3]))
    elif not problems:
        res.case(common.h(cobj), False, labels=["refused-with-graph"])
    from .. import findings
    for key, desc in problems:
        k2 = findings.classify("C20", key, cobj, desc)
        if k2 is not None and k2 in known:
            res.known(k2, {"desc": desc[:200]})
            continue
        return (desc + " | mode %d acc %s names %s | model %s" % (mode, accmode, base[:3], nl.show_model(n)[:250]), cobj, k2)
    return None


def run(ctx):
    common.build("build/vd/vdriver")
    known = {k for k, r in common.load_known(ctx.pid).items() if r.get("status") == "known"}

    def check(case, res):
        m, info, mode, base, accmode, opts = case
        n, _, _ = nl.normalize(m)
        return judge(n, mode, base, accmode, opts, res, known)
    res = hyp.run_property(ctx, cases(), check, ctx.pick(6000, 150000), known_keys=known, time_budget=ctx.pick(300, 900))
    return common.finish(ctx, res, "exploration", RULE,
                         ["Python's json module with parse_constant rejecting NaN/Infinity defines 'valid JSON'",
                          "constraint short type names are the first acc: option name with ':' replaced by '_'"])


def replay(ctx, path):
    common.build("build/vd/vdriver")
    c = json.load(open(path))
    n = nl.model_from_obj(c["model"])
    res = common.Result()
    known = {k for k, r in common.load_known(ctx.pid).items() if r.get("status") == "known"}
    v = judge(n, c["mode"], c["base"], c["accmode"], c["opts"], res, known)
    if v:
        print("VIOLATION property=%s replay=%s" % (ctx.pid, path))
        print("  " + v[0][:800])
        return 1
    print("replay passes: %s" % path)
    return 0
