"""C01 - the model delivered to the solver API is equivalent to the NL model (projection on original variables).

Domain: (model in the exact fragment, acceptance configuration, conversion options, grid point).
Oracle: exact rational reference evaluator of the NL model vs. z3 "exists auxiliary values" on the delivered model.
"""
import json
from fractions import Fraction as F

import z3
from hypothesis import strategies as st

from .. import common, conv, flat, gen, hyp, nl

RULE = ("Hypothesis-generated (model, acceptance table, cvt options); all points of the gridded original-variable domain; "
        "non-trivial = the delivered model has at least one auxiliary variable and the grid contains both NL-feasible and "
        "NL-infeasible points; distinct by hash of (model, configuration)")
ASSUME = ["z3 decides the exists-auxiliary queries (unknown => inconclusive)", "my NL emitter and reference evaluator (verif/nl.py)",
          "natively accepted functional constraints mean r = f(args)",
          "continuous variables judged on a dyadic grid where every compared difference is 0 or >= 2^-6"]


def quad_ok(acc, opts):
    """Are products kept exact by this configuration? (else the converter PL-approximates them: C13's subject)"""
    lv = lambda t: acc["levels"].get(t, acc["default"])
    o = dict(x.split("=") for x in opts)
    quadcon = all(lv(t) >= 1 for t in ("QuadConLE", "QuadConEQ", "QuadConGE")) and o.get("cvt:quadcon", "1") != "0"
    pow_ok = lv("PowConstraint") >= 1
    return quadcon or pow_ok, quadcon, pow_ok


# natively accepted types under which the delta-relaxed oracle stays sound (no discontinuous dependence on perturbed values)
SAFE_RELAX = {"LinConRange", "LinConLE", "LinConEQ", "LinConGE", "QuadConRange", "QuadConLE", "QuadConEQ", "QuadConGE",
              "IndicatorLinConLE", "IndicatorLinConEQ", "IndicatorLinConGE", "IndicatorQuadConLE", "IndicatorQuadConEQ",
              "IndicatorQuadConGE", "SOS1Constraint", "SOS2Constraint", "PLConstraint", "MaxConstraint", "MinConstraint",
              "AbsConstraint", "AndConstraint", "OrConstraint", "NotConstraint", "IfThenConstraint", "ImplicationConstraint"}
DELTA = F(1, 10**9)


def eps_is_dyadic(opts):
    for o in opts:
        if o.startswith("cvt:mip:eps="):
            f = F(float(o.split("=")[1]))
            return f.denominator & (f.denominator - 1) == 0 and f.denominator <= 2**20
    return False


LAST = {}


def judge(n, info, acc, opts, step, res, labels=True, expect_objs=None, strict_objs=False, fmt="text"):
    """Returns None or (desc, replay_case, key).
    expect_objs: indices of the NL objectives expected to be delivered, in order (default: the first one, if any)."""
    if expect_objs is None:
        expect_objs = [0] if n.objs else []
    run = conv.convert(n, acc, opts, fmt=fmt)
    LAST["run"] = run
    case_obj = dict(model=nl.model_to_obj(n), acc=acc, opts=list(opts), step=str(step), fmt=fmt,
                    expect_objs=expect_objs, strict_objs=strict_objs,
                    info=dict(ops=sorted(info['ops']), nbprod=bool(info['nbprod'])))
    tag = []
    if common.alloc_limit(run, res):
        return None
    if run.sanitizer or run.signal or run.timed_out:
        if run.timed_out:
            res.inconclusive += 1
            return None
        return ("driver crashed during conversion: rc=%s %s; model: %s" % (run.rc, common.crash_head(run.err), nl.show_model(n)), case_obj, "crash")
    pts, total = conv.grid(n, step)
    fm = run.dump
    if fm is None or not fm.complete:
        # conversion refused: must come with a diagnostic; an infeasibility claim must be true on the grid
        code, msg = conv.diagnostic_of(run)
        res.label("refused")
        if not msg.strip():
            return ("conversion refused without any diagnostic (rc=%s)" % run.rc, case_obj, "silent-refusal")
        if code is not None and 200 <= code <= 299:
            for x in pts:
                if nl.feasible(n, x):
                    case_obj["point"] = [str(v) for v in x]
                    return ("converter claims infeasible (code %d: %s) but x=%s satisfies the NL model" % (
                        code, msg[:200], [str(v) for v in x]), case_obj, "false-infeasible")
            res.label("refused:infeasible-confirmed-on-grid")
        else:
            res.label("refused:" + (msg.split("\n")[0][:60]))
        return None
    exact, quadcon, pow_ok = quad_ok(acc, opts)
    announced = "PLApprox" in ((run.sol_text or "") + run.out + run.err)   # the driver itself says it approximated
    if announced or (info["nbprod"] and not exact):
        res.label("approximated(not judged)")
        res.inconclusive += 1
        return None
    delta = 0
    if not eps_is_dyadic(opts):
        # decimal eps (the default 1e-4): delivered big-M coefficients are rounded doubles -> judge with a 1e-9 tolerance,
        # which is only sound if nothing natively accepted depends discontinuously on an auxiliary value
        natives = {t for t in set(c.type for c in fm.cons)}
        if not natives <= SAFE_RELAX:
            res.label("decimal-eps+discontinuous-native(not judged)")
            res.inconclusive += 1
            return None
        delta = DELTA
    zm = flat.Z3Model(fm, delta=delta)
    if zm.unsupported:
        res.label("unsupported-in-oracle:" + ",".join(sorted(set(zm.unsupported))))
        res.inconclusive += 1
        return None
    norig = len(n.vars)
    nfeas = ninf = 0
    have_obj = bool(expect_objs)
    objterms = [zm.obj_term(o) for o in fm.objs]
    if strict_objs and len(fm.objs) != len(expect_objs):
        return ("%d objective(s) delivered, %d expected (NL objectives %s); delivered: %s" % (
            len(fm.objs), len(expect_objs), expect_objs, [(o["i"], o["sense"], o["vars"]) for o in fm.objs]), case_obj, "objective-count")
    for x in pts:
        try:
            a = nl.feasible(n, x)
        except nl.Undefined:
            continue
        point = {i: x[i] for i in range(norig)}
        b = zm.check_point(point)
        if b == "unknown":
            res.inconclusive += 1
            continue
        if a:
            nfeas += 1
        else:
            ninf += 1
        if a != (b == "sat"):
            case_obj["point"] = [str(v) for v in x]
            case_obj["nl_feasible"] = a
            return ("feasible-set mismatch at x=%s: NL says %s, delivered model says %s; model: %s; delivered types: %s" % (
                [str(v) for v in x], a, b, nl.show_model(n), fm.types_delivered()), case_obj,
                "lost-solution" if a else "extra-solution")
        if a and have_obj:
            for j, k in enumerate(expect_objs):
                f = nl.obj_value(n.objs[k], x, n)
                if j >= len(objterms):
                    if f != 0 and not (n.objs[k]["expr"] is None and not n.objs[k]["lin"]):
                        case_obj["point"] = [str(v) for v in x]
                        return ("NL objective %d is not delivered (only %d objectives delivered)" % (k, len(objterms)), case_obj,
                                "objective-dropped")
                    continue
                objterm = objterms[j]
                # relaxed oracle: auxiliary values may be off by ~delta, so objective values are compared with a 1e-6 margin
                tol = F(0) if delta == 0 else F(1, 10**6)
                r1 = zm.check_point(point, [objterm >= zm.q(f - tol), objterm <= zm.q(f + tol)])
                better = objterm > zm.q(f + tol) if fm.objs[j]["sense"] == 1 else objterm < zm.q(f - tol)
                r2 = zm.check_point(point, [better])
                if "unknown" in (r1, r2):
                    res.inconclusive += 1
                    continue
                if fm.objs[j]["sense"] != n.objs[k]["sense"] or r1 != "sat" or r2 != "unsat":
                    case_obj["point"] = [str(v) for v in x]
                    return ("objective mismatch at x=%s: NL objective %d has value %s (sense %d); delivered objective %d: sense %d, "
                            "value-attainable=%s, better-attainable=%s; model: %s" % (
                                [str(v) for v in x], k, f, n.objs[k]["sense"], j, fm.objs[j]["sense"], r1, r2, nl.show_model(n)),
                            case_obj, "objective-value")
    nontrivial = fm.nvars > norig and nfeas > 0 and ninf > 0
    if labels:
        for t in fm.types_delivered():
            res.label("delivered:" + t)
        for o in info["ops"]:
            res.label("op:" + o)
        res.label("acc-mode:" + acc["mode"])
        res.label("oracle:" + ("exact" if delta == 0 else "relaxed-1e-9"))
        res.label("grid-subsampled" if total > len(pts) else "grid-complete")
        for o in opts:
            res.label("opt:" + o.split("=")[0])
    res.case(common.h([case_obj["model"], acc, list(opts)]), nontrivial,
             sample=dict(model=nl.show_model(n), acc_mode=acc["mode"], native=sorted(t for t, l in acc["levels"].items() if l), opts=list(opts),
                         delivered=fm.types_delivered(), flat_vars=fm.nvars, grid_points=len(pts), nl_feasible=nfeas, nl_infeasible=ninf))
    return None


def classify_known(desc, key, case_obj):
    return key


@st.composite
def cases(draw):
    m, info = draw(gen.models())
    acc = draw(gen.acceptance())
    opts = [o for o in draw(gen.cvt_options()) if not o.startswith("cvt:mip:eps")]
    # comparison tolerance: mostly a dyadic value (then every number the converter computes is exact in double and the
    # oracle is exact); sometimes the decimal default, judged with the 1e-9 relaxed oracle
    k = draw(st.sampled_from([10, 10, 12, 8, 10, 0, 0, -3, -5]))
    if k > 0:
        opts.append("cvt:mip:eps=%s" % repr(2.0 ** -k))
    elif k < 0:
        opts.append("cvt:mip:eps=1e%d" % k)
    return m, info, acc, opts


def run(ctx):
    common.build("build/vd/vdriver")
    known = {k for k, r in common.load_known(ctx.pid).items() if r.get("status") == "known"}
    step = F(1, 2) if ctx.quick else F(1, 4)

    def check(case, res):
        m, info, acc, opts = case
        n, vp, cp = nl.normalize(m)
        v = judge(n, info, acc, opts, step, res)
        if v is None:
            return None
        desc, cobj, key = v
        k2 = refine_key(key, cobj, desc)
        return desc, cobj, k2
    pre = common.Result()
    nreg = replay_regressions(ctx, pre)
    res = hyp.run_property(ctx, cases(), check, ctx.pick(4000, 100000), known_keys=known,
                           time_budget=ctx.pick(400, 900))
    res.merge_json(pre.to_json())
    res.extra["regression_inputs_replayed"] = nreg
    return common.finish(ctx, res, "exploration", RULE, ASSUME)


def replay_regressions(ctx, res):
    """Saved shrunk inputs of earlier findings (fixed defects and corrected false alarms) are re-judged on every run."""
    import glob, os
    n = 0
    for path in sorted(glob.glob(os.path.join(common.ROOT, "regress", ctx.pid, "*.json"))):
        c = json.load(open(path))
        m = nl.model_from_obj(c["model"])
        info = dict(ops=set(c.get("info", {}).get("ops", [])), nbprod=c.get("info", {}).get("nbprod", False))
        v = judge(m, info, c["acc"], c["opts"], F(c.get("step", "1/2")), res, labels=False)
        n += 1
        if v:
            res.violation("regression input fails again: " + v[0], None, path)
    return n


def refine_key(key, cobj, desc):
    """Map a raw failure class to a root-cause key of KNOWN_FINDINGS.jsonl when its signature matches."""
    from .. import findings
    return findings.classify("C01", key, cobj, desc)


def replay(ctx, path):
    common.build("build/vd/vdriver")
    c = json.load(open(path))
    n = nl.model_from_obj(c["model"])
    info = dict(ops=set(c.get('info', {}).get('ops', [])), nbprod=c.get('info', {}).get('nbprod', False))
    res = common.Result()
    v = judge(n, info, c["acc"], c["opts"], F(c.get("step", "1/2")), res, labels=False, expect_objs=c.get("expect_objs"),
              strict_objs=c.get("strict_objs", False), fmt=c.get("fmt", "text"))
    if v:
        print("VIOLATION property=%s replay=%s" % (ctx.pid, path))
        print("  " + v[0][:800])
        return 1
    print("replay passes: %s" % path)
    return 0
