"""C10 - solve-result codes are classified and reported as documented.

Domain: every integer code -200..999 (complete enumeration) x presence of primal / dual / objective values.
Oracle: the range table of doc/source/features-guide.rst (and the sol::Status comments), transcribed below.
"""
import json
import os
import re
import subprocess
from concurrent.futures import ThreadPoolExecutor
from fractions import Fraction as F

from .. import common, nl, vd

RANGES = [("solved", 0, 99), ("uncertain", 100, 199), ("infeasible", 200, 299), ("unbounded_feas", 300, 349),
          ("unbounded_nofeas", 350, 399), ("limit_feas", 400, 449), ("limit_inf_unb", 450, 469), ("limit_nofeas", 470, 499),
          ("failure", 500, 999)]


def cls(code):
    for n, a, b in RANGES:
        if a <= code <= b:
            return n
    return "none"


def expected_predicates(code):
    """(solved, solved_or_feasible, infeasible, unbounded, indiff_inf_or_unb, inf_or_unb); None = don't care"""
    c = cls(code)
    solved = c == "solved"
    sof = True if c in ("solved", "unbounded_feas", "limit_feas") else (None if c == "uncertain" else False)
    infeas = c == "infeasible"
    unb = c in ("unbounded_feas", "unbounded_nofeas")
    indiff = c == "limit_inf_unb"
    inf_or_unb = c in ("infeasible", "unbounded_feas", "unbounded_nofeas", "limit_inf_unb")
    return [solved, sof, infeas, unb, indiff, inf_or_unb]


PRED_NAMES = ["IsProblemSolved", "IsProblemSolvedOrFeasible", "IsProblemInfeasible", "IsProblemUnbounded",
              "IsProblemIndiffInfOrUnb", "IsProblemInfOrUnb"]


def small_model():
    m = nl.Model()
    m.vars = [dict(lb=F(0), ub=F(4), int=False), dict(lb=F(0), ub=F(3), int=False)]
    m.cons = [dict(lin={0: F(1), 1: F(2)}, expr=None, lb=-nl.INF, ub=F(6), compl=None)]
    m.objs = [dict(sense=1, lin={0: F(1), 1: F(1)}, expr=None)]
    n, _, _ = nl.normalize(m)
    return nl.emit(n)


def classify(code, what):
    c = cls(code)
    if what in ("pred:IsProblemSolvedOrFeasible", "objective-missing") and c in ("unbounded_feas", "limit_feas"):
        return "solvedorfeasible-ranges"
    if what in ("pred:IsProblemInfeasible", "pred:IsProblemInfOrUnb") and code == 299:
        return "infeasible-299"
    return None


def run(ctx):
    common.build("build/vd/vdriver")
    res = common.Result()
    known = {k for k, r in common.load_known(ctx.pid).items() if r.get("status") == "known"}
    os.makedirs(vd.RUNDIR, exist_ok=True)
    # ---- 1. predicate table, complete
    tpath = os.path.join(vd.RUNDIR, "status_table_%d.json" % os.getpid())
    p = subprocess.run([vd.BIN], env=common.env_with({"VDRIVER_STATUS_TABLE": tpath}), stdout=subprocess.PIPE, stderr=subprocess.PIPE)
    table = json.load(open(tpath))
    os.unlink(tpath)
    boundaries = sorted({b + d for _, a, b2 in RANGES for b in (a, b2) for d in (-1, 0, 1)} | {-200, -1})
    reported = set()
    for code in range(-200, 1000):
        got = table[str(code)]
        exp = expected_predicates(code)
        nt = code in boundaries
        res.case(("table", code), nt, sample=dict(code=code, predicates=dict(zip(PRED_NAMES, got))) if code in (99, 100, 299, 300, 349, 449) else None)
        for name, g, e in zip(PRED_NAMES, got, exp):
            if e is None or bool(g) == e:
                continue
            key = classify(code, "pred:" + name)
            if key in known:
                res.known(key, dict(code=code, predicate=name))
                continue
            sig = (name, key or cls(code))
            if sig in reported:
                continue
            reported.add(sig)
            case = dict(kind="table", code=code, predicate=name, expected=e, got=bool(g))
            res.violation("%s(%d) = %s, documented class '%s' requires %s%s" % (name, code, bool(g), cls(code), e,
                          " [root cause: %s]" % key if key else ""), case, common.save_replay(ctx.pid, case, "table-%s-%d.json" % (name, code)))
    res.extra["predicate_table_exhaustive"] = True
    # ---- 2. full runs: code x (primal, dual, obj) presence
    nlb = small_model()
    codes = list(range(-200, 1000))   # complete on both tiers (about 40 s on 16 cores)
    jobs = [(c, pm, dl, ob) for c in codes for pm in (0, 1) for dl in (0, 1) for ob in (0, 1)]

    def one(job):
        code, pm, dl, ob = job
        cfg = ["status %d scripted status text" % code]
        if pm:
            cfg.append("primal 2 %s %s" % (1.0.hex(), 2.0.hex()))
        if dl:
            cfg.append("dual 3 1 %s" % (0.5).hex())
        if ob:
            cfg.append("objvals 1 %s" % (42.5).hex())
        r = vd.run(nlb, cfg, want_dump=False)
        return job, r
    with ThreadPoolExecutor(common.NCPU) as ex:
        results = list(ex.map(one, jobs))
    for (code, pm, dl, ob), r in results:
        nt = code in boundaries
        bad = None
        if r.sanitizer or r.signal or r.sol is None:
            bad = ("crash-or-no-sol", "run failed: rc=%s sol_error=%s %s" % (r.rc, r.sol_error, common.crash_head(r.err)))
        else:
            msg = "\n".join(r.sol.message)
            has_obj = re.search(r"objective\s+42\.5", msg) is not None
            c = cls(code)
            want = None if c == "uncertain" else (c in ("solved", "unbounded_feas", "limit_feas") and ob == 1)
            if r.sol.code != code:
                bad = ("code-changed", "backend reported %d, .sol says %s" % (code, r.sol.code))
            elif want is not None and has_obj != want:
                bad = ("objective-missing" if want else "objective-unexpected",
                       "code %d (%s), objective value %s by the backend: message %s 'objective 42.5': %r" % (
                           code, c, "supplied" if ob else "not supplied", "lacks" if want else "contains", msg[:120]))
            if bad is None and pm and r.sol.nprimals not in (0, 2):
                bad = ("dims", "primal vector of length %d" % r.sol.nprimals)
        res.case(("run", code, pm, dl, ob), nt, sample=dict(code=code, primal=pm, dual=dl, obj=ob, message=(r.sol.message[0] if r.sol and r.sol.message else None),
                                                            sol_code=r.sol.code if r.sol else None) if (code in (0, 300, 400, 500) and pm and ob and dl) else None,
                 labels=["run:" + cls(code)])
        if bad:
            key = classify(code, bad[0])
            if key in known:
                res.known(key, dict(code=code))
                continue
            sig = (bad[0], key or cls(code))
            if sig in reported:
                continue
            reported.add(sig)
            case = dict(kind="run", code=code, primal=pm, dual=dl, obj=ob)
            res.violation(bad[1] + (" [root cause: %s]" % key if key else ""), case,
                          common.save_replay(ctx.pid, case, "run-%d-%d%d%d.json" % (code, pm, dl, ob)))
    # ---- 2b. the other way a backend reports a code: StdBackend::Abort(code, text) from inside Solve()
    def one_abort(code):
        return code, vd.run(nlb, ["status %d scripted abort text" % code, "solve_throw 3"], want_dump=False)
    with ThreadPoolExecutor(common.NCPU) as ex:
        aresults = list(ex.map(one_abort, codes))
    for code, r in aresults:
        # an mp::Error without a solve-result code carries EXIT_FAILURE (1) or -1: codes up to 99 on this path cannot be told from
        # "no code" and are written as failure by design - not judged
        judged = code >= 100
        res.case(("abort", code), judged and code in boundaries, labels=["abort:" + (cls(code) if judged else "not-judged(<100)")],
                 sample=dict(kind="abort", code=code, sol_code=r.sol.code if r.sol else None) if code in (150, 200, 520) else None)
        bad = None
        if r.sanitizer or r.signal or r.sol is None:
            bad = ("abort-crash-or-no-sol", "Abort(%d): run failed: rc=%s sol_error=%s %s" % (code, r.rc, r.sol_error, common.crash_head(r.err)))
        elif judged and r.sol.code != code:
            bad = ("abort-code-changed", "backend aborted with code %d (%s), .sol says %s" % (code, cls(code), r.sol.code))
        elif judged and "scripted abort text" not in "\n".join(r.sol.message):
            bad = ("abort-text-lost", "Abort(%d, text): the text is not in the solve message %r" % (code, r.sol.message[:2]))
        if bad:
            sig = (bad[0], cls(code))
            if sig in reported:
                continue
            reported.add(sig)
            case = dict(kind="abort", code=code)
            res.violation(bad[1], case, common.save_replay(ctx.pid, case, "abort-%d.json" % code))
    # ---- 3. the table shown by -!
    p = subprocess.run([vd.BIN, "-!"], env=common.env_with(), stdout=subprocess.PIPE, stderr=subprocess.PIPE, text=True)
    shown = {}
    for line in p.stdout.splitlines():
        m = re.match(r"\s*(-?\d+)\s*-\s*(\d+)\s+(.*)", line)
        if m:
            shown[(int(m.group(1)), int(m.group(2)))] = m.group(3)
    res.extra["result_table_ranges_shown"] = sorted("%d-%d" % k for k in shown)
    for n, a, b in RANGES:
        res.case(("shown", a, b), True)
        if (a, b) not in shown:
            case = dict(kind="shown", range=[a, b])
            res.violation("-! does not list the documented range %d-%d (%s); it lists %s" % (a, b, n, sorted(shown)), case,
                          common.save_replay(ctx.pid, case, "shown-%d-%d.json" % (a, b)))
    res.exhaustive = True
    res.nontrivial = {common.h(x) for x in res.nontrivial}
    return common.finish(ctx, res, "exploration",
                         "all 1200 codes for the six range predicates (complete on both tiers); full driver runs for code x presence of "
                         "primal/dual/objective (all 9600 combinations on both tiers); StdBackend::Abort(code, text) for all 1200 codes (judged from 100 up); "
                         "non-trivial = code within 1 of a documented range boundary",
                         ["range table transcribed from doc/source/features-guide.rst and the sol::Status comments",
                          "100-199 ('solved?') is don't-care for the objective clause, as the property lists only solved / "
                          "unbounded-with-solution / limit-with-solution"])


def replay(ctx, path):
    common.build("build/vd/vdriver")
    c = json.load(open(path))
    if c["kind"] == "table":
        tpath = os.path.join(vd.RUNDIR, "status_table_%d.json" % os.getpid())
        os.makedirs(vd.RUNDIR, exist_ok=True)
        subprocess.run([vd.BIN], env=common.env_with({"VDRIVER_STATUS_TABLE": tpath}), stdout=subprocess.PIPE, stderr=subprocess.PIPE)
        table = json.load(open(tpath))
        os.unlink(tpath)
        got = table[str(c["code"])][PRED_NAMES.index(c["predicate"])]
        if bool(got) != c["expected"]:
            print("VIOLATION property=%s replay=%s" % (ctx.pid, path))
            print("  %s(%d) = %s, expected %s" % (c["predicate"], c["code"], bool(got), c["expected"]))
            return 1
        print("replay passes: %s" % path)
        return 0
    if c["kind"] == "abort":
        r = vd.run(small_model(), ["status %d scripted abort text" % c["code"], "solve_throw 3"], want_dump=False)
        if r.sol is None or r.sol.code != c["code"] or "scripted abort text" not in "\n".join(r.sol.message):
            print("VIOLATION property=%s replay=%s" % (ctx.pid, path))
            print("  Abort(%d): .sol code %s, message %r" % (c["code"], r.sol.code if r.sol else None, r.sol.message[:2] if r.sol else None))
            return 1
        print("replay passes: %s" % path)
        return 0
    if c["kind"] == "run":
        cfg = ["status %d scripted status text" % c["code"]]
        if c["primal"]:
            cfg.append("primal 2 %s %s" % (1.0.hex(), 2.0.hex()))
        if c["dual"]:
            cfg.append("dual 3 1 %s" % (0.5).hex())
        if c["obj"]:
            cfg.append("objvals 1 %s" % (42.5).hex())
        r = vd.run(small_model(), cfg, want_dump=False)
        ok = r.sol is not None and r.sol.code == c["code"]
        if ok:
            msg = "\n".join(r.sol.message)
            k = cls(c["code"])
            want = None if k == "uncertain" else (k in ("solved", "unbounded_feas", "limit_feas") and c["obj"] == 1)
            if want is not None and (re.search(r"objective\s+42\.5", msg) is not None) != want:
                ok = False
        if not ok:
            print("VIOLATION property=%s replay=%s" % (ctx.pid, path))
            return 1
        print("replay passes: %s" % path)
        return 0
    print("replay kind %s: rerun ./check C10" % c["kind"])
    return 0
