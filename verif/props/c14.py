"""C14 - the SOL reader is total and memory-safe on arbitrary files.

Engine: libFuzzer target build/fuzz/fuzz_solread (ASan+UBSan) with the oracle inside: documented result codes only, an
error message with every error code, no exception escapes, no vector longer than the declared problem size is offered,
and no vector whose reading failed or stopped half-way is followed by an overall OK. The target varies the declared
problem size (0 / smaller / equal / larger) and how much of each offered vector the handler reads (all / half / none / one).
"""
import os

from .. import common, fuzzrun

BIN = os.path.join(common.BUILD, "fuzz", "fuzz_solread")
CORPUS = os.path.join(common.ROOT, "corpus", "C14")
TAG = "C14-ORACLE-VIOLATION"


def run(ctx):
    common.build("build/fuzz/fuzz_solread")
    res = common.Result()
    camp = fuzzrun.campaign(ctx, res, BIN, CORPUS, ctx.pick(100000, 1500000), 4000, TAG, nontrivial_key="past_options")
    for k in ("ok", "err", "past_options", "vec_offered", "suf_offered", "binary", "suf_len_checked"):
        res.labels[k] = int(camp.get(k, 0))
    return common.finish(
        ctx, res, "exploration",
        "libFuzzer executions (16 processes; seeds = generated valid text and binary .sol files with options, suffixes and tables); "
        "distinct_nontrivial = distinct corpus units (one per new coverage feature set) that got past the message/options block, counted by the "
        "target's own counters on the merged corpus",
        ["only crash-/leak- artifacts confirmed by 3 replays count", "std::bad_alloc for a hostile length counts as a refusal",
         "the bytes reach fopen() through a memfd path"])


def replay(ctx, path):
    common.build("build/fuzz/fuzz_solread")
    rc, err = fuzzrun.run_files(BIN, [path])
    if rc != 0:
        print("VIOLATION property=%s replay=%s" % (ctx.pid, path))
        print("  " + fuzzrun.classify(err, TAG))
        return 1
    print("replay passes: %s" % path)
    return 0
