"""C19 - names given to the solver are complete, faithful and unique.

Domain: generated models (shared subexpressions, deep conversions) x cvt:names 0..3 x .col/.row present / absent / short /
CRLF / AMPL-style names with brackets, quotes, commas, spaces x acceptance tables.
Oracle: on the dump of AddVariables / objectives / AddConstraint: non-empty, unique per class, original variables carry
the file or generic name, every auxiliary name is derived from (has as prefix) an original item's name; no names when
none are requested.
"""
import json
import re
from fractions import Fraction as F

from hypothesis import strategies as st

from .. import common, conv, gen, hyp, nl
from .c12 import acc_table

RULE = ("Hypothesis: model x names mode x name files x acceptance; non-trivial = names requested and the conversion created "
        ">= 2 auxiliary variables or constraints; distinct by hash of (model, files, mode, acceptance)")

NAME_POOL = ["x", "y['a b']", "z[1,2]", "w['it''s',3]", "Flow[\"NY\",'LA']", "u_1", "cost['a,b']", "v[ 1 ]", "T.x", "a#b", "q[1][2]",
             "r['\\']", "s{t}", "long_" * 8, "é", "p[-1]"]


@st.composite
def cases(draw):
    m, info = draw(gen.models(max_vars=4, depth=3))
    mode = draw(st.sampled_from([0, 1, 1, 2, 2, 3]))
    files = draw(st.sampled_from(["ok", "ok", "absent", "short", "crlf", "colonly", "rowonly"]))
    base = draw(st.lists(st.sampled_from(NAME_POOL), min_size=1, max_size=6))
    dup = draw(st.booleans())
    accmode = draw(st.sampled_from(["all", "none", "typical", "none"]))
    opts = draw(gen.cvt_options())
    # SOS sets declared by variable suffixes (.sosno/.ref, or .sos/.sosref as AMPL writes them for its own piecewise-linear
    # linearisation): the flattener creates top-level SOS1_<id>_/SOS2_<id>_/SOS2_PL_<id>_ constraints whose names enter the
    # name graph separately (ConstraintKeeper::CopyNames2ValueNodes), and their MIP reformulation derives names from them
    if len(m.vars) >= 2 and draw(st.integers(0, 3)) == 0:
        pair = draw(st.sampled_from([("sosno", "ref"), ("sos", "sosref"), ("sos", "sosref")]))
        ids = draw(st.lists(st.sampled_from([-2, -1, 3, 4]), min_size=len(m.vars), max_size=len(m.vars)))
        if len(m.vars) >= 3 and draw(st.booleans()):
            ids = [ids[0]] * len(m.vars)           # one set with >= 3 members: the reformulation creates several items
        m.suffixes.append(dict(name=pair[0], kind=0, real=False, values={i: g for i, g in enumerate(ids)}))
        m.suffixes.append(dict(name=pair[1], kind=0, real=True, values={i: F(i + 1) for i in range(len(m.vars))}))
    return m, info, mode, files, base, dup, accmode, opts


def make_names(base, k, prefix, dup):
    out = []
    for i in range(k):
        b = base[i % len(base)]
        out.append("%s%s_%d" % (prefix, b, i) if not dup or i % 3 else "%s%s_%d" % (prefix, b, i))
    return out


def judge(n, mode, files, base, dup, accmode, opts, res, known=()):
    nv, ndv = len(n.vars), len(n.dvars)
    nalg, nlog, nobj = len(n.cons), len(n.lcons), len(n.objs)
    col = make_names(base, nv + ndv, "V", dup)
    row = make_names(base, nalg + nlog + nobj, "C", dup)
    extra = {}
    ncol_read = nrow_read = 0
    if files in ("ok", "crlf", "short", "colonly", "rowonly"):
        sep = "\r\n" if files == "crlf" else "\n"
        c2, r2 = list(col), list(row)
        if files == "short":
            c2, r2 = c2[:max(0, len(c2) - 1)], r2[:max(0, len(r2) - 2)]
        if files != "rowonly" and c2:
            extra["m.col"] = (sep.join(c2) + sep).encode("utf-8")
            ncol_read = len(c2)
        if files != "colonly" and r2:
            extra["m.row"] = (sep.join(r2) + sep).encode("utf-8")
            nrow_read = len(r2)
    acc = acc_table(accmode)
    o = [x for x in opts if not x.startswith("cvt:names")] + ["cvt:names=%d" % mode, "cvt:mip:eps=%s" % repr(2.0 ** -10)]
    run = conv.convert(n, acc, o, extra_files=extra)
    cobj = dict(model=nl.model_to_obj(n), mode=mode, files=files, base=base, dup=dup, accmode=accmode, opts=opts)
    if common.alloc_limit(run, res):
        return None
    if run.sanitizer or run.signal:
        return ("crash: %s" % common.crash_head(run.err), cobj, "crash")
    fm = run.dump
    if fm is None or not fm.complete:
        res.label("refused")
        return None
    requested = mode >= 2 or (mode == 1 and (ncol_read + nrow_read) > 0)
    vnames = fm.names
    cnames = [c.name for c in fm.cons]
    onames = [ob["name"] for ob in fm.objs]
    if not requested:
        res.case(common.h(cobj), False, labels=["not-requested"])
        # (the label SOS1_<id>_/SOS2_<id>_/SOS2_PL_<id>_ that the flattener gives a suffix-declared SOS set is part of the constraint
        # object whatever the names mode; the property speaks of requested names only, so this label is not judged here)
        if vnames is not None or any(s for s in cnames if not s.startswith(("SOS1_", "SOS2_"))) or any(onames):
            return ("names passed although none were requested (mode %d, files %s): vars %s cons %s" % (mode, files, vnames, cnames[:4]),
                    cobj, "names-not-requested")
        return None
    # expected original names
    def vname(i):
        if i < ncol_read and mode <= 2:
            return col[i]
        return "_svar[%d]" % (i + 1) if i < nv else "_sdvar[%d]" % (i - nv + 1)

    def cname(i):
        if i < nrow_read and mode <= 2:
            return row[i]
        return "_scon[%d]" % (i + 1) if i < nalg else "_slogcon[%d]" % (i - nalg + 1)
    orig = [vname(i) for i in range(nv + ndv)] + [cname(i) for i in range(nalg + nlog)]
    if nobj:
        io = nalg + nlog
        orig.append(row[io] if (io < nrow_read and mode <= 2) else "_sobj[1]")
    sosids = {g for sf in n.suffixes if sf["name"] in ("sosno", "sos") for g in sf["values"].values() if g}
    orig_only = list(orig)
    orig = orig + ["%s%d_" % (pfx, g) for g in sorted(sosids) for pfx in ("SOS1_", "SOS2_", "SOS2_PL_")]
    problems = []
    if vnames is None:
        problems.append(("var-names-missing", "names requested but AddVariables received no names"))
    else:
        for i, s in enumerate(vnames):
            if not s:
                problems.append(("empty-var-name", "variable %d has an empty name" % i))
                break
        dups = {s for s in vnames if vnames.count(s) > 1}
        if dups and not problems:
            problems.append(("duplicate-var-name", "variables share the name(s) %s: %s" % (sorted(dups)[:3], vnames)))
        for i in range(nv):
            if vnames[i] != vname(i):
                problems.append(("orig-var-name", "original variable %d is called %r, expected %r" % (i, vnames[i], vname(i))))
                break
        for i in range(nv, len(vnames)):
            if not any(vnames[i].startswith(p) for p in orig):
                problems.append(("aux-var-name-not-derived", "auxiliary variable %d is called %r, not derived from any original item name %s" % (
                    i, vnames[i], orig)))
                break
    for i, s in enumerate(cnames):
        if fm.cons[i].type == "UnaryEncodingConstraint":
            continue
        if not s:
            problems.append(("empty-con-name", "delivered constraint %d (%s) has an empty name" % (i, fm.cons[i].type)))
            break
        if not any(s.startswith(p) for p in orig):
            problems.append(("con-name-not-derived", "delivered constraint %d (%s) is called %r, not derived from any original item name %s" % (
                i, fm.cons[i].type, s, orig)))
            break
    dups = {s for s in cnames if s and cnames.count(s) > 1}
    if dups:
        cobj["dups"] = sorted(dups)
        problems.append(("duplicate-con-name", "constraints share the name(s) %s" % sorted(dups)[:3]))
    for i, s in enumerate(onames):
        if not s:
            problems.append(("empty-obj-name", "objective %d has an empty name" % i))
        elif nobj and s != orig_only[-1]:
            problems.append(("obj-name", "objective is called %r, expected %r" % (s, orig_only[-1])))
    naux = (fm.nvars - nv) + max(0, len(fm.cons) - nalg - nlog)
    res.case(common.h(cobj), naux >= 2, labels=["mode=%d" % mode, "files=" + files, "acc=" + accmode] + (["sos-suffix"] if sosids else []) +
             (["sos-reformulated"] if sosids and any(s.startswith("SOS") for s in cnames + list(vnames or []))
              and not any(c.type.startswith("SOS") for c in fm.cons) else []),
             sample=dict(model=nl.show_model(n)[:200], mode=mode, files=files, var_names=(vnames or [])[:8], con_names=cnames[:6]))
    from .. import findings
    for key, desc in problems:
        k2 = findings.classify("C19", key, cobj, desc)
        if k2 is not None and k2 in known:
            res.known(k2, {"desc": desc[:200]})     # recorded finding: count, keep looking at the other problems of this case
            continue
        return (desc + " | mode %d files %s acc %s | model %s" % (mode, files, accmode, nl.show_model(n)[:300]), cobj, k2)
    return None


def run(ctx):
    common.build("build/vd/vdriver")
    known = {k for k, r in common.load_known(ctx.pid).items() if r.get("status") == "known"}

    def check(case, res):
        m, info, mode, files, base, dup, accmode, opts = case
        n, _, _ = nl.normalize(m)
        return judge(n, mode, files, base, dup, accmode, opts, res, known)
    res = hyp.run_property(ctx, cases(), check, ctx.pick(6000, 200000), known_keys=known, time_budget=ctx.pick(300, 900))
    return common.finish(ctx, res, "exploration", RULE,
                         ["generic names are AMPL's synonyms _svar/_sdvar/_scon/_slogcon/_sobj as coded in ReadNames",
                          "an auxiliary item's name is 'derived' if an original item's name is a prefix of it"])


def replay(ctx, path):
    common.build("build/vd/vdriver")
    c = json.load(open(path))
    n = nl.model_from_obj(c["model"])
    res = common.Result()
    known = {k for k, r in common.load_known(ctx.pid).items() if r.get("status") == "known"}
    v = judge(n, c["mode"], c["files"], c["base"], c["dup"], c["accmode"], c["opts"], res, known)
    if v:
        print("VIOLATION property=%s replay=%s" % (ctx.pid, path))
        print("  " + v[0][:800])
        return 1
    print("replay passes: %s" % path)
    return 0
