"""C13 - piecewise-linear approximations stay within the requested tolerance.

Engine: rapidcheck inside build/prod/pl_shim: (function of the 17, parameter, argument interval, result interval, tolerance,
integrality) -> mp::PLApproximate -> judged against the true function in long double: breakpoints strictly increasing and
spanning the reported domain, error measure (relative where |f| > 1, absolute otherwise) at 13 samples plus a local maximum
search on every piece, integer shortcut exact, period/factor/remainder ranges reach the argument interval.
"""
import glob
import json
import os
import shutil
import subprocess
from concurrent.futures import ThreadPoolExecutor

from .. import common

BIN = os.path.join(common.BUILD, "prod", "pl_shim")
KNOWN_KEY = "min-breakpoint-distance"
KNOWN_CLASSES = "error-bound@resolution single@resolution"


def replay_file(path):
    p = subprocess.run([BIN, "replay", path], env=common.env_with(), stdout=subprocess.PIPE, stderr=subprocess.PIPE, text=True)
    return p.returncode, (p.stdout + p.stderr).strip()


def run(ctx):
    common.build("build/prod/pl_shim")
    res = common.Result()
    known = {k for k, r in common.load_known(ctx.pid).items() if r.get("status") == "known"}
    reg = os.path.join(common.ROOT, "regress", ctx.pid)
    skip = ""
    for f in sorted(glob.glob(os.path.join(reg, "*.txt"))):
        rc, out = replay_file(f)
        res.evaluations += 1
        probe = os.path.basename(f).startswith("known-mindist-")
        if rc == 0:
            continue
        if probe and KNOWN_KEY in known:
            # the probe's failure must carry the recorded signature; the shim prints the class only through PL_FAIL, so re-derive it
            cls = classify(f)
            if cls in KNOWN_CLASSES.split():
                res.known(KNOWN_KEY, {"probe": os.path.basename(f), "result": out[:300]})
                skip = KNOWN_CLASSES          # excluded by construction from the generated stream, so that the search goes on
                continue
        res.violation("regression input fails%s: %s: %s" % ("" if probe else " again", os.path.basename(f), common.crash_head(out) or out[:400]), None, f)
    n = 1200                        # per process; rapidcheck slows down super-linearly, so many short runs
    jobs = common.NCPU * ctx.pick(1, 16)
    work = os.path.join(common.ROOT, "work", "c13-%d" % os.getpid())
    os.makedirs(work, exist_ok=True)

    def one(i):
        failp = os.path.join(work, "fail%d.txt" % i)
        cur = os.path.join(work, "cur%d.txt" % i)
        e = common.env_with(dict(RC_PARAMS="seed=%d max_success=%d" % (ctx.seed * 1000 + i + 1, n), PL_FAIL=failp, PL_CURRENT=cur, PL_SKIP=skip))
        p = subprocess.run([BIN, "rc"], env=e, stdout=subprocess.PIPE, stderr=subprocess.PIPE, text=True)
        j = None
        for l in p.stdout.splitlines():
            if l.startswith('{"ok"'):
                j = json.loads(l)
        return i, p, j, failp, cur
    try:
        with ThreadPoolExecutor(common.NCPU) as ex:
            outs = list(ex.map(one, range(jobs)))
        nt = 0
        for i, p, j, failp, cur in outs:
            if j is None:
                if p.returncode == 42:            # the 60 s per-case alarm (normal cases take milliseconds)
                    res.labels["timeout_cases"] += 1
                    hung = os.path.exists(cur) and not res.labels.get("hang_confirmations") and confirm_hang(cur)     # at most one (4 more minutes)
                    res.labels["hang_confirmations"] += 1
                    if hung:                      # the same single case ran into a 120 s limit twice more: no PL function is produced at all
                        path = os.path.join(common.REPLAYS, ctx.pid, "hang-%s.txt" % common.h(open(cur).read()))
                        os.makedirs(os.path.dirname(path), exist_ok=True)
                        shutil.copy(cur, path)
                        res.violation("PLApproximate does not return within 120 s (three attempts; normal cases take milliseconds): %s" % open(cur).read().strip(), None, path)
                    else:
                        res.inconclusive += 1
                    continue
                path = None
                if os.path.exists(cur):
                    path = os.path.join(common.REPLAYS, ctx.pid, "crash-%d.txt" % i)
                    os.makedirs(os.path.dirname(path), exist_ok=True)
                    shutil.copy(cur, path)
                res.violation("pl_shim aborted (rc=%s): %s" % (p.returncode, common.crash_head(p.stderr) or p.stderr[-300:]), {"stderr": p.stderr[-2000:]}, path)
                continue
            res.evaluations += j["cases"]
            nt += j["distinct_nontrivial"]
            res.labels["skipped_known"] += j["skipped_known"]
            for k, v in j["classes"].items():
                res.labels["outcome:" + k] += v
            for k, v in j["functions"].items():
                res.labels["fn:" + k] += v
            res.labels["worst_ok_err_over_tol_x1000"] = max(res.labels.get("worst_ok_err_over_tol_x1000") or 0, int(j["worst_ok_ratio"] * 1000))
            for s in j["samples"][:1]:
                if len(res.samples) < 8:
                    res.samples.append(s)
            if not j["ok"]:
                path = os.path.join(common.REPLAYS, ctx.pid, "fail-%s.txt" % common.h(open(failp).read()))
                os.makedirs(os.path.dirname(path), exist_ok=True)
                shutil.copy(failp, path)
                res.violation(j["fail"][:600], None, path)
        res.nontrivial = nt
    finally:
        shutil.rmtree(work, ignore_errors=True)
    return common.finish(ctx, res, "exploration",
                         "rapidcheck-generated (function, parameter, argument/result interval, tolerance, integrality) cases; non-trivial = an approximation "
                         "with >= 4 breakpoints (or an integer shortcut with >= 3) was produced and judged on every piece; distinct by hash of the case",
                         ["error measure may exceed the tolerance by 2% before it counts (rounding in the code's own step control)",
                          "a gap of up to 1e-4 (the documented AddPoint resolution) between the outer breakpoints and the reported domain is tolerated; the "
                          "error bound is judged over the whole reported domain with the end slopes extended, as the PL constraint is defined",
                          "integer arguments are judged at the integers of the domain only",
                          "an 'empty argument domain' error and the documented refusal of negative bases for fractional/negative exponents are accepted outcomes",
                          "exponents 0 and 1 and base 1 are not generated (the converter never passes them); |x| <= 1e6 (default cvt:plapprox:domain)",
                          "per-piece maximum found by sampling + ternary search, not proved",
                          "recorded finding min-breakpoint-distance is excluded from the generated stream by its signature and probed by fixed inputs"])


def confirm_hang(path):
    for _ in range(2):
        p = subprocess.run([BIN, "replay", path], env=common.env_with(dict(PL_ALARM="120")), stdout=subprocess.PIPE, stderr=subprocess.PIPE)
        if p.returncode != 42:
            return False
    return True


def classify(path):
    p = subprocess.run([BIN, "class", path], env=common.env_with(), stdout=subprocess.PIPE, stderr=subprocess.PIPE, text=True)
    return p.stdout.strip()


def replay(ctx, path):
    common.build("build/prod/pl_shim")
    rc, out = replay_file(path)
    if rc != 0:
        cls = classify(path)
        known = {k for k, r in common.load_known(ctx.pid).items() if r.get("status") == "known"}
        if cls in KNOWN_CLASSES.split() and KNOWN_KEY in known:
            print("KNOWN-FINDING: property=%s %s: %s" % (ctx.pid, KNOWN_KEY, out[:300]))
            return 0
        print("VIOLATION property=%s replay=%s" % (ctx.pid, path))
        print("  " + out[:600])
        return 1
    print("replay passes: %s" % path)
    return 0
