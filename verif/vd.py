"""Runs the verification driver (build/vd/vdriver) on one NL file + script + options."""
import os
import shutil
import subprocess
import tempfile

from . import common, flat, solfile

BIN = os.path.join(common.BUILD, "vd", "vdriver")
RUNDIR = os.path.join(common.BUILD, "run")


def hexf(x):
    x = float(x)
    if x == float("inf"):
        return "inf"
    if x == float("-inf"):
        return "-inf"
    return x.hex()


def vec(vals):
    return "%d %s" % (len(vals), " ".join(hexf(v) for v in vals))


class Run:
    pass


def run(nl_bytes, cfg_lines=(), options=(), ampl=True, extra_files=None, env=None, timeout=60, keep=False, stub="m",
        solver_options_env=None, want_dump=True):
    """Returns Run with rc, out, err, dump (FlatModel|None), sol_text (str|None), sol (Sol|None), sol_error, timed_out."""
    os.makedirs(RUNDIR, exist_ok=True)
    d = tempfile.mkdtemp(dir=RUNDIR)
    r = Run()
    r.dir = d
    try:
        with open(os.path.join(d, stub + ".nl"), "wb") as f:
            f.write(nl_bytes)
        for name, data in (extra_files or {}).items():
            if "/" in name:
                os.makedirs(os.path.dirname(os.path.join(d, name)), exist_ok=True)
            with open(os.path.join(d, name), "wb") as f:
                f.write(data if isinstance(data, bytes) else data.encode())
        with open(os.path.join(d, "cfg.txt"), "w") as f:
            f.write("\n".join(cfg_lines) + "\n")
        e = common.env_with({"VDRIVER_CFG": os.path.join(d, "cfg.txt")})
        if want_dump:
            e["VDRIVER_DUMP"] = os.path.join(d, "dump.json")
        for k in ("mp_options", "vdriver_options"):
            e.pop(k, None)
        if solver_options_env:
            e.update(solver_options_env)
        if env:
            e.update(env)
        args = [BIN, stub] + (["-AMPL"] if ampl else []) + list(options)
        r.args = args
        try:
            p = subprocess.run(args, cwd=d, env=e, stdout=subprocess.PIPE, stderr=subprocess.PIPE, timeout=timeout)
            r.rc, r.out, r.err, r.timed_out = p.returncode, p.stdout.decode("latin-1"), p.stderr.decode("latin-1"), False
        except subprocess.TimeoutExpired as te:
            r.rc, r.out, r.err, r.timed_out = None, (te.stdout or b"").decode("latin-1"), (te.stderr or b"").decode("latin-1"), True
        r.dump = None
        dp = os.path.join(d, "dump.json")
        if os.path.exists(dp):
            try:
                r.dump = flat.FlatModel(dp)
            except Exception as ex:   # truncated dump (crash while writing)
                r.dump = None
                r.dump_error = str(ex)
        sp = os.path.join(d, stub + ".sol")
        r.sol_text, r.sol, r.sol_error = None, None, None
        if os.path.isfile(sp):
            r.sol_text = open(sp, "rb").read().decode("latin-1")
            try:
                r.sol = solfile.parse(r.sol_text)
            except solfile.SolParseError as ex:
                r.sol_error = str(ex)
        r.files = sorted(os.listdir(d))
        r.sanitizer = ("AddressSanitizer" in r.err) or ("runtime error:" in r.err) or ("UndefinedBehaviorSanitizer" in r.err)
        r.signal = r.rc is not None and r.rc < 0
        return r
    finally:
        if not keep:
            shutil.rmtree(d, ignore_errors=True)


def acc_cfg(levels, default=2, quadobj=2, nonconvexqc=1):
    lines = ["acc_default %d" % default, "quadobj %d" % quadobj, "nonconvexqc %d" % nonconvexqc]
    for t, l in sorted(levels.items()):
        lines.append("acc %s %d" % (t, l))
    return lines
