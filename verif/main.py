import argparse
import importlib
import os
import sys

from . import common


def main():
    ap = argparse.ArgumentParser()
    ap.add_argument("pid")
    ap.add_argument("--tier", default=os.environ.get("VERIF_TIER") or "quick")
    ap.add_argument("--replay", default=None)
    a = ap.parse_args()
    tier = a.tier if a.tier in ("quick", "thorough") else "quick"
    try:
        seed = int(os.environ.get("VERIF_SEED", "1") or "1")
    except ValueError:
        seed = 1
    pid = a.pid.upper()
    mod = importlib.import_module("verif.props.%s" % pid.lower())
    ctx = common.Ctx(pid, tier, seed, a.replay)
    if a.replay:
        sys.exit(mod.replay(ctx, a.replay))
    sys.exit(mod.run(ctx))


if __name__ == "__main__":
    main()
