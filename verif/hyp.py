"""Hypothesis harness shared by the property modules: seeding, worker fan-out, known-finding skipping,
capture of the shrunk failing case."""
import os
import time

from hypothesis import HealthCheck, Phase, given, seed, settings
from hypothesis.errors import Flaky

from . import common

try:   # bound the time Hypothesis spends shrinking one failure (default: 5 minutes)
    import hypothesis.internal.conjecture.engine as _eng
    _eng.MAX_SHRINKING_SECONDS = int(os.environ.get("VERIF_SHRINK_SECONDS", "90"))
except Exception:   # pragma: no cover
    pass


class Violation(Exception):
    def __init__(self, desc, case, key=None):
        super().__init__(desc)
        self.desc, self.case, self.key = desc, case, key


def run_property(ctx, strategy, check_fn, n_examples, workers=None, known_keys=(), time_budget=None):
    """check_fn(case, res) -> None | Violation-args tuple (desc, replay_case_obj, key).
    A returned violation whose key is a `known` finding is counted and skipped, so the search continues behind it.
    Otherwise Hypothesis shrinks it; the shrunk case is saved as replay file."""
    workers = workers or common.NCPU
    per = max(1, (n_examples + workers - 1) // workers)
    known_keys = set(known_keys)

    def worker(idx):
        res = common.Result()
        state = {"last": None, "t0": time.time(), "stop": False}

        @seed(ctx.seed * 1000003 + idx)
        @settings(max_examples=per, database=None, deadline=None, report_multiple_bugs=False, derandomize=False,
                  suppress_health_check=list(HealthCheck), phases=(Phase.generate, Phase.shrink), print_blob=False)
        @given(strategy)
        def prop(case):
            if time_budget and not state["last"] and time.time() - state["t0"] > time_budget:
                state["stop"] = True
                return
            v = check_fn(case, res)
            if v is None:
                return
            desc, rcase, key = v
            if key is not None and key in known_keys:
                res.known(key, {"desc": desc})
                return
            state["last"] = (desc, rcase, key)
            raise Violation(desc, rcase, key)
        try:
            prop()
        except Violation:
            desc, rcase, key = state["last"]
            path = common.save_replay(ctx.pid, rcase)
            res.violation(desc + (" [root cause: %s]" % key if key else ""), None, path)
        except Flaky:
            # the failing case passed when Hypothesis executed it again: nothing reproducible to report (the harness owns every
            # schedule, so this is the machine - a guard timer under load, a killed helper process), and no replay file could show it
            res.inconclusive += 1
            res.notes.append("worker %d: a failure did not reproduce on immediate re-execution and was dropped as inconclusive: %s" % (
                idx, (state["last"][0] if state["last"] else "?")[:300]))
        if state["stop"]:
            res.notes.append("worker %d stopped generating at the wall-clock guard (inconclusive for the remainder)" % idx)
        return res
    if workers == 1:
        return worker(0)
    return common.run_workers(worker, workers)
