"""The model delivered to the (recording) ModelAPI: parser of vdriver's dump and its *semantics*.

Semantics are written from the mathematical definitions in each constraint's description string
(r = max(v1..vn), b==bv ==> c'x <= d, SOS in weight order, ...), not from mp's constr_eval.h:
 - exact-rational Python evaluation (holds / value), used for forward evaluation and for C06/C07,
 - z3 terms for the exists-auxiliary oracle.
"""
import json
from fractions import Fraction

import z3

INF = float("inf")


def hx(s):
    """hex-float string from the dump -> float"""
    if s == "inf":
        return INF
    if s == "-inf":
        return -INF
    if s == "nan":
        return float("nan")
    return float.fromhex(s)


def fr(x):
    if x in (INF, -INF):
        return x
    return Fraction(x)


class Con:
    __slots__ = ("type", "kind", "group", "gindex", "name", "d")

    def __init__(self, ev):
        self.type, self.kind, self.group, self.gindex, self.name = ev["type"], ev["kind"], ev.get("group"), ev.get("gindex"), ev.get("name")
        self.d = ev


def _alg(d):
    out = dict(coefs=[fr(hx(c)) for c in d["coefs"]], vars=d["vars"], lb=fr(hx(d["lb"])), ub=fr(hx(d["ub"])), cmp=d["cmp"])
    if "qcoefs" in d:
        out.update(qcoefs=[fr(hx(c)) for c in d["qcoefs"]], qvars1=d["qvars1"], qvars2=d["qvars2"])
    else:
        out.update(qcoefs=[], qvars1=[], qvars2=[])
    if "const" in d:
        out["const"] = fr(hx(d["const"]))
    return out


class FlatModel:
    def __init__(self, dump):
        if isinstance(dump, str):
            dump = json.load(open(dump))
        self.phase = dump.get("phase")
        self.events = dump["events"]
        self.lb, self.ub, self.type, self.names = [], [], [], None
        self.objs, self.cons = [], []
        self.other = []
        self.complete = False
        for ev in self.events:
            k = ev["ev"]
            if k == "vars":
                self.lb = [fr(hx(v)) for v in ev["lb"]]
                self.ub = [fr(hx(v)) for v in ev["ub"]]
                self.type = ev["type"]
                self.names = ev["names"]
            elif k == "obj":
                o = dict(i=ev["i"], sense=ev["sense"], name=ev["name"], coefs=[fr(hx(c)) for c in ev["coefs"]], vars=ev["vars"],
                         qcoefs=[fr(hx(c)) for c in ev.get("qcoefs", [])], qvars1=ev.get("qvars1", []), qvars2=ev.get("qvars2", []))
                self.objs.append(o)
            elif k == "con":
                self.cons.append(Con(ev))
            elif k == "end":
                self.complete = True
            else:
                self.other.append(ev)
        self.nvars = len(self.lb)

    def types_delivered(self):
        return sorted({c.type for c in self.cons})

    def find(self, evname):
        return [e for e in self.other if e["ev"] == evname]


# ------------------------------------------------------------------ exact python semantics
def _body(a, x):
    v = sum((c * x[i] for c, i in zip(a["coefs"], a["vars"])), Fraction(0))
    v += sum((c * x[i] * x[j] for c, i, j in zip(a["qcoefs"], a["qvars1"], a["qvars2"])), Fraction(0))
    return v + a.get("const", 0)


def _alg_holds(a, x, strict_kind=None):
    b = _body(a, x)
    k = a["cmp"]
    if k == -2:
        return b < a["ub"]
    if k == 2:
        return b > a["lb"]
    return a["lb"] <= b <= a["ub"]


def pl_points_value(px, py, t):
    """PL function through the points, extended by the end slopes."""
    n = len(px)
    if n == 1:
        return py[0]
    if t <= px[0]:
        s = (py[1] - py[0]) / (px[1] - px[0])
        return py[0] + s * (t - px[0])
    for i in range(n - 1):
        if t <= px[i + 1]:
            s = (py[i + 1] - py[i]) / (px[i + 1] - px[i])
            return py[i] + s * (t - px[i])
    s = (py[-1] - py[-2]) / (px[-1] - px[-2])
    return py[-1] + s * (t - px[-1])


def func_value(c, x):
    """Value of the functional constraint's right-hand side at x (exact). None if no exact semantics here."""
    d, t = c.d, c.type
    if c.kind == "linfunc" or c.kind == "quadfunc":
        return _body(_alg_expr(d["expr"]), x)
    if c.kind == "cond":
        return Fraction(1 if _alg_holds(_alg(d["con"]), x) else 0)
    if c.kind != "func":
        return None
    a = [x[i] for i in d["args"]]
    if t == "MaxConstraint":
        return max(a)
    if t == "MinConstraint":
        return min(a)
    if t == "AbsConstraint":
        return abs(a[0])
    if t == "AndConstraint":
        return Fraction(1 if all(v >= Fraction(1, 2) for v in a) else 0)
    if t == "OrConstraint":
        return Fraction(1 if any(v >= Fraction(1, 2) for v in a) else 0)
    if t == "NotConstraint":
        return Fraction(0 if a[0] >= Fraction(1, 2) else 1)
    if t == "DivConstraint":
        return None if a[1] == 0 else a[0] / a[1]
    if t == "IfThenConstraint":
        return a[1] if a[0] >= Fraction(1, 2) else a[2]
    if t == "ImplicationConstraint":
        r = a[1] if a[0] >= Fraction(1, 2) else a[2]
        return Fraction(1 if r >= Fraction(1, 2) else 0)
    if t == "AllDiffConstraint":
        return Fraction(1 if len(set(a)) == len(a) else 0)
    if t == "NumberofConstConstraint":
        k = fr(hx(d["params"][0]))
        return Fraction(sum(1 for v in a if v == k))
    if t == "NumberofVarConstraint":
        return Fraction(sum(1 for v in a[1:] if v == a[0]))
    if t == "CountConstraint":
        return Fraction(sum(1 for v in a if v != 0))
    if t == "PLConstraint":
        px = [fr(hx(v)) for v in d["params"]["pl_x"]]
        py = [fr(hx(v)) for v in d["params"]["pl_y"]]
        return pl_points_value(px, py, a[0])
    if t == "PowConstraint":
        p = fr(hx(d["params"][0]))
        if p.denominator == 1 and (p >= 0 or a[0] != 0):
            return a[0] ** int(p)
        return None
    return None


def _alg_expr(d):
    return dict(coefs=[fr(hx(c)) for c in d["coefs"]], vars=d["vars"],
                qcoefs=[fr(hx(c)) for c in d.get("qcoefs", [])], qvars1=d.get("qvars1", []), qvars2=d.get("qvars2", []),
                const=fr(hx(d["const"])), lb=-INF, ub=INF, cmp=-100)


def con_holds(c, x, lb=None, ub=None):
    """Does the delivered constraint hold at the full flat point x (exact)? None if undecidable here."""
    d = c.d
    if c.kind == "alg":
        return _alg_holds(_alg(d), x)
    if c.kind == "indicator":
        if x[d["bin_var"]] == d["bin_val"]:
            return _alg_holds(_alg(d["con"]), x)
        return True
    if c.kind == "sos":
        nz = [i for i, v in enumerate(d["vars"]) if x[v] != 0]
        if d["sos_type"] == 1:
            return len(nz) <= 1
        return len(nz) <= 1 or (len(nz) == 2 and nz[1] - nz[0] == 1)
    if c.kind == "compl":
        e = _body(_alg_expr(d["expr"]), x)
        j = d["compl_var"]
        if e == 0:
            return True
        if lb is not None and lb[j] != -INF and x[j] == lb[j] and e >= 0:
            return True
        if ub is not None and ub[j] != INF and x[j] == ub[j] and e <= 0:
            return True
        return False
    if c.type == "UnaryEncodingConstraint":
        return True
    v = func_value(c, x)
    if v is None:
        return None
    return x[d["res_var"]] == v


# ------------------------------------------------------------------ z3 semantics
class Z3Model:
    """z3 encoding of the delivered model; original variables are the first n_orig ones."""

    def __init__(self, fm, timeout_ms=4000, delta=0):
        """delta > 0: every row, bound and numeric functional equality is relaxed by delta (absolute), the way a solver's
        feasibility tolerance would; used when the delivered coefficients contain rounded decimal data (cvt:mip:eps=1e-4)."""
        self.fm = fm
        self.delta = Fraction(delta)
        self.unsupported = []
        self.v = []
        self.raw = []
        for i in range(fm.nvars):
            if fm.type[i] == 1:
                r = z3.Int("x%d" % i)
                self.raw.append(r)
                self.v.append(z3.ToReal(r))
            else:
                r = z3.Real("x%d" % i)
                self.raw.append(r)
                self.v.append(r)
        self.s = z3.Solver()
        self.s.set("timeout", timeout_ms)
        logical_use = set()
        for c in fm.cons:
            d = c.d
            if c.kind == "indicator":
                logical_use.add(d["bin_var"])
            elif c.kind == "cond":
                logical_use.add(d["res_var"])
            elif c.kind == "func" and c.type in ("AndConstraint", "OrConstraint", "NotConstraint", "ImplicationConstraint",
                                                 "CountConstraint", "AllDiffConstraint"):
                logical_use.update(d["args"])
                logical_use.add(d["res_var"])
            elif c.kind == "func" and c.type == "IfThenConstraint":
                logical_use.add(d["args"][0])
        for i in range(fm.nvars):
            # truth-valued and fixed variables keep exact bounds even in relaxed mode
            dl = self.delta if (fm.type[i] != 1 and i not in logical_use and fm.lb[i] != fm.ub[i]) else 0
            if fm.lb[i] != -INF:
                self.s.add(self.v[i] >= self.q(fm.lb[i] - dl))
            if fm.ub[i] != INF:
                self.s.add(self.v[i] <= self.q(fm.ub[i] + dl))
        for c in fm.cons:
            t = self.con_term(c)
            if t is None:
                self.unsupported.append(c.type)
            else:
                self.s.add(t)

    @staticmethod
    def q(f):
        if isinstance(f, Fraction):
            return z3.Q(f.numerator, f.denominator)
        return z3.RealVal(f)

    def body(self, a):
        terms = [self.q(c) * self.v[i] for c, i in zip(a["coefs"], a["vars"])]
        terms += [self.q(c) * self.v[i] * self.v[j] for c, i, j in zip(a["qcoefs"], a["qvars1"], a["qvars2"])]
        if a.get("const", 0) != 0:
            terms.append(self.q(a["const"]))
        return z3.Sum(terms) if terms else z3.RealVal(0)

    def alg(self, a):
        b = self.body(a)
        k = a["cmp"]
        if k == -2:
            return b < self.q(a["ub"])
        if k == 2:
            return b > self.q(a["lb"])
        cs = []
        if a["lb"] != -INF:
            cs.append(b >= self.q(a["lb"] - self.delta))
        if a["ub"] != INF:
            cs.append(b <= self.q(a["ub"] + self.delta))
        return z3.And(cs) if cs else z3.BoolVal(True)

    def eqn(self, r, f):
        """r = f for a numeric functional constraint (relaxed by delta when delta > 0)"""
        if self.delta == 0:
            return r == f
        return z3.And(r - f <= self.q(self.delta), f - r <= self.q(self.delta))

    def truth(self, i):
        """0/1-valued variable as a boolean"""
        return self.v[i] >= z3.Q(1, 2)

    def con_term(self, c):
        d, t, v = c.d, c.type, self.v
        one, zero = z3.RealVal(1), z3.RealVal(0)
        if c.kind == "alg":
            return self.alg(_alg(d))
        if c.kind == "indicator":
            return z3.Implies(v[d["bin_var"]] == d["bin_val"], self.alg(_alg(d["con"])))
        if c.kind == "sos":
            vs = d["vars"]
            nzs = [v[i] != 0 for i in vs]
            n = len(vs)
            cs = []
            if d["sos_type"] == 1:
                for i in range(n):
                    for j in range(i + 1, n):
                        cs.append(z3.Not(z3.And(nzs[i], nzs[j])))
            else:
                for i in range(n):
                    for j in range(i + 2, n):
                        cs.append(z3.Not(z3.And(nzs[i], nzs[j])))
            return z3.And(cs) if cs else z3.BoolVal(True)
        if c.kind == "compl":
            e = self.body(_alg_expr(d["expr"]))
            j = d["compl_var"]
            alts = [e == 0]
            if self.fm.lb[j] != -INF:
                alts.append(z3.And(v[j] == self.q(self.fm.lb[j]), e >= 0))
            if self.fm.ub[j] != INF:
                alts.append(z3.And(v[j] == self.q(self.fm.ub[j]), e <= 0))
            return z3.Or(alts)
        if c.kind in ("linfunc", "quadfunc"):
            return self.eqn(v[d["res_var"]], self.body(_alg_expr(d["expr"])))
        if c.kind == "cond":
            return (v[d["res_var"]] >= z3.Q(1, 2)) == self.alg(_alg(d["con"]))
        if t == "UnaryEncodingConstraint":
            return z3.BoolVal(True)
        if c.kind != "func":
            return None
        r = v[d["res_var"]] if d["res_var"] >= 0 else None
        a = [v[i] for i in d["args"]]
        b01 = lambda cond: z3.If(cond, one, zero)
        if r is None:
            # static use of a functional type (e.g. root alldiff): the relation itself must hold
            if t == "AllDiffConstraint":
                return z3.Distinct(a) if len(a) > 1 else z3.BoolVal(True)
            return None
        if t == "MaxConstraint":
            return z3.And([r >= ai for ai in a] + [z3.Or([r == ai for ai in a])])
        if t == "MinConstraint":
            return z3.And([r <= ai for ai in a] + [z3.Or([r == ai for ai in a])])
        if t == "AbsConstraint":
            return self.eqn(r, z3.If(a[0] >= 0, a[0], -a[0]))
        if t == "AndConstraint":
            return r == b01(z3.And([self.truth(i) for i in d["args"]]))
        if t == "OrConstraint":
            return r == b01(z3.Or([self.truth(i) for i in d["args"]]))
        if t == "NotConstraint":
            return r == b01(z3.Not(self.truth(d["args"][0])))
        if t == "DivConstraint":
            return z3.And(a[1] != 0, r * a[1] == a[0])
        if t == "IfThenConstraint":
            return self.eqn(r, z3.If(self.truth(d["args"][0]), a[1], a[2]))
        if t == "ImplicationConstraint":
            return r == b01(z3.If(self.truth(d["args"][0]), self.truth(d["args"][1]), self.truth(d["args"][2])))
        if t == "AllDiffConstraint":
            return r == b01(z3.Distinct(a) if len(a) > 1 else z3.BoolVal(True))
        if t == "NumberofConstConstraint":
            k = self.q(fr(hx(d["params"][0])))
            return r == z3.Sum([b01(ai == k) for ai in a])
        if t == "NumberofVarConstraint":
            return r == z3.Sum([b01(ai == a[0]) for ai in a[1:]]) if len(a) > 1 else r == 0
        if t == "CountConstraint":
            return r == z3.Sum([b01(ai != 0) for ai in a])
        if t == "PLConstraint":
            px = [fr(hx(p)) for p in d["params"]["pl_x"]]
            py = [fr(hx(p)) for p in d["params"]["pl_y"]]
            return self.eqn(r, self.pl_term(px, py, a[0]))
        if t == "PowConstraint":
            p = fr(hx(d["params"][0]))
            if p.denominator == 1 and 0 <= p <= 4:
                e = one
                for _ in range(int(p)):
                    e = e * a[0]
                return r == e
            return None
        return None

    def pl_term(self, px, py, t):
        n = len(px)
        if n == 1:
            return self.q(py[0])
        segs = []
        for i in range(n - 1):
            s = (py[i + 1] - py[i]) / (px[i + 1] - px[i])
            segs.append((px[i + 1], self.q(py[i]) + self.q(s) * (t - self.q(px[i]))))
        e = segs[-1][1]
        for hi, term in reversed(segs[:-1]):
            e = z3.If(t <= self.q(hi), term, e)
        return e

    def obj_term(self, o):
        return self.body(dict(coefs=o["coefs"], vars=o["vars"], qcoefs=o["qcoefs"], qvars1=o["qvars1"], qvars2=o["qvars2"]))

    def check_point(self, point, extra=()):
        """point: {var index: Fraction}. Returns 'sat' | 'unsat' | 'unknown'."""
        self.s.push()
        try:
            for i, val in point.items():
                self.s.add(self.v[i] == self.q(val))
            for e in extra:
                self.s.add(e)
            r = self.s.check()
            if r == z3.sat:
                self.last_model = self.s.model()
            return str(r)
        finally:
            self.s.pop()

    def model_values(self):
        out = []
        for i in range(self.fm.nvars):
            val = self.last_model.eval(self.raw[i], model_completion=True)
            if z3.is_int_value(val):
                out.append(Fraction(val.as_long()))
            elif z3.is_rational_value(val):
                out.append(Fraction(val.numerator_as_long(), val.denominator_as_long()))
            else:
                out.append(None)
        return out


# ------------------------------------------------------------------ floating-point values (C06: transcendental types)
import math

_UNARY_F = {"ExpConstraint": math.exp, "LogConstraint": math.log, "SinConstraint": math.sin, "CosConstraint": math.cos,
            "TanConstraint": math.tan, "AsinConstraint": math.asin, "AcosConstraint": math.acos, "AtanConstraint": math.atan,
            "SinhConstraint": math.sinh, "CoshConstraint": math.cosh, "TanhConstraint": math.tanh, "AsinhConstraint": math.asinh,
            "AcoshConstraint": math.acosh, "AtanhConstraint": math.atanh}


def func_value_float(c, x):
    """Value of the functional constraint's right-hand side at float point x; None where f is undefined or unknown."""
    d, t = c.d, c.type
    try:
        if t in _UNARY_F:
            return _UNARY_F[t](x[d["args"][0]])
        if t == "ExpAConstraint":
            return hx(d["params"][0]) ** x[d["args"][0]]
        if t == "LogAConstraint":
            return math.log(x[d["args"][0]]) / math.log(hx(d["params"][0]))
        if t == "PowConstraint":
            p, b = hx(d["params"][0]), x[d["args"][0]]
            if b < 0 and p != int(p):
                return None
            if b == 0 and p < 0:
                return None
            return b ** p
        if t == "DivConstraint":
            a = [x[i] for i in d["args"]]
            return None if a[1] == 0 else a[0] / a[1]
    except (ValueError, OverflowError, ZeroDivisionError):
        return None
    xf = [Fraction(v) if v == v and v not in (INF, -INF) else None for v in x]
    if any(v is None for v in xf):
        return None
    r = func_value(c, xf)
    return None if r is None else float(r)
