"""NL problem AST, independent NL emitter (text and binary, either byte order), exact reference evaluator.

Written from the NL format description (D. Gay, "Writing .nl Files"), not from mp's reader or writers.

Expressions are nested tuples:
 numeric: ('num', Fraction|float) ('var', i) ('cvar', k) ('neg', e) ('abs', e) ('add', a, b) ('sub', a, b)
          ('mul', a, b) ('div', a, b) ('pow2', e) ('powc', e, c) ('pow', a, b) ('sum', [e..]) ('min', [e..]) ('max', [e..])
          ('if', L, a, b) ('count', [L..]) ('numberof', [val, e..]) ('pl', [bp..], [slope..], ('var', i))
          ('un', name, e)    -- other unary functions by name (floor, ceil, exp, log, sin, ...)
          ('bin', name, a, b) -- other binary (less, mod, atan2, intdiv, precision, round, trunc)
          ('call', fidx, [args])  ('str', 'text') only as call argument
 logical: ('lconst', 0|1) ('not', L) ('or', a, b) ('and', a, b) ('iff', a, b) ('cmp', op, a, b) op in lt le eq ge gt ne
          ('lcount', kind, e, ('count', [...])) kind in atleast atmost exactly natleast natmost nexactly
          ('impl', c, t, f) ('forall', [L..]) ('exists', [L..]) ('alldiff', [e..]) ('nalldiff', [e..])
"""
import struct
from fractions import Fraction

INF = float("inf")

UNARY_OPS = {"floor": 13, "ceil": 14, "abs": 15, "neg": 16, "tanh": 37, "tan": 38, "sqrt": 39, "sinh": 40, "sin": 41,
             "log10": 42, "log": 43, "exp": 44, "cosh": 45, "cos": 46, "atanh": 47, "atan": 49, "asinh": 50, "asin": 51,
             "acosh": 52, "acos": 53, "pow2": 77}
BINARY_OPS = {"add": 0, "sub": 1, "mul": 2, "div": 3, "mod": 4, "pow": 5, "less": 6, "atan2": 48, "intdiv": 55,
              "precision": 56, "round": 57, "trunc": 58, "powcexp": 76, "powcbase": 78}
CMP_OPS = {"lt": 22, "le": 23, "eq": 24, "ge": 28, "gt": 29, "ne": 30}
LCOUNT_OPS = {"atleast": 62, "atmost": 63, "exactly": 66, "natleast": 67, "natmost": 68, "nexactly": 69}


class Model:
    """vars: list of dict(lb, ub, int) (lb/ub Fraction/float, -INF/INF allowed)
       cons: list of dict(lin={var:coef}, expr=tree|None, lb, ub, compl=None|var index)
       lcons: list of logical trees
       objs: list of dict(sense=0 min|1 max, lin={}, expr=tree|None)  (a constant goes into expr as ('num', c))
       dvars: list of dict(lin={}, expr=tree|None)   (defined variables / common expressions)
       funcs: list of dict(name, nargs, symbolic)
       x0: {var: val}, y0: {con: val}
       suffixes: list of dict(name, kind 0..3, real bool, values {idx: val})
    """

    def __init__(self):
        self.vars, self.cons, self.lcons, self.objs, self.dvars = [], [], [], [], []
        self.funcs, self.suffixes = [], []
        self.x0, self.y0 = {}, {}
        self.var_names = self.con_names = self.obj_names = None

    def to_json(self):
        def cv(o):
            if isinstance(o, Fraction):
                return float(o)
            if isinstance(o, dict):
                return {str(k): cv(v) for k, v in o.items()}
            if isinstance(o, (list, tuple)):
                return [cv(x) for x in o]
            return o
        return cv({k: getattr(self, k) for k in ("vars", "cons", "lcons", "objs", "dvars", "funcs", "x0", "y0", "suffixes")})


# ------------------------------------------------------------------ tree utilities
def children(e):
    k = e[0]
    if k in ("num", "var", "cvar", "lconst", "str"):
        return []
    if k in ("neg", "abs", "pow2", "not"):
        return [e[1]]
    if k == "un":
        return [e[2]]
    if k == "powc":
        return [e[1]]
    if k in ("add", "sub", "mul", "div", "pow", "or", "and", "iff"):
        return [e[1], e[2]]
    if k == "bin":
        return [e[2], e[3]]
    if k == "cmp":
        return [e[2], e[3]]
    if k in ("sum", "min", "max", "count", "numberof", "forall", "exists", "alldiff", "nalldiff"):
        return list(e[1])
    if k == "call":
        return list(e[2])
    if k in ("if", "impl"):
        return [e[1], e[2], e[3]]
    if k == "lcount":
        return [e[2], e[3]]
    if k == "pl":
        return [e[3]]
    raise ValueError("unknown node %r" % (k,))


def walk(e):
    yield e
    for c in children(e):
        yield from walk(c)


def size(e):
    return sum(1 for _ in walk(e))


def vars_in(e, model=None, seen=None):
    """Original variables an expression depends on (through defined variables if model given)."""
    out = set()
    for n in walk(e):
        if n[0] == "var":
            out.add(n[1])
        elif n[0] == "cvar" and model is not None:
            seen = seen or set()
            if n[1] not in seen:
                seen.add(n[1])
                d = model.dvars[n[1]]
                out.update(d["lin"].keys())
                if d["expr"] is not None:
                    out |= vars_in(d["expr"], model, seen)
    return out


def map_vars(e, vmap):
    """Re-index variables."""
    k = e[0]
    if k == "var":
        return ("var", vmap[e[1]])
    if k in ("num", "cvar", "lconst", "str"):
        return e
    if k in ("neg", "abs", "pow2", "not"):
        return (k, map_vars(e[1], vmap))
    if k == "un":
        return (k, e[1], map_vars(e[2], vmap))
    if k == "powc":
        return (k, map_vars(e[1], vmap), e[2])
    if k in ("add", "sub", "mul", "div", "pow", "or", "and", "iff"):
        return (k, map_vars(e[1], vmap), map_vars(e[2], vmap))
    if k in ("bin", "cmp"):
        return (k, e[1], map_vars(e[2], vmap), map_vars(e[3], vmap))
    if k in ("sum", "min", "max", "count", "numberof", "forall", "exists", "alldiff", "nalldiff"):
        return (k, [map_vars(x, vmap) for x in e[1]])
    if k == "call":
        return (k, e[1], [map_vars(x, vmap) for x in e[2]])
    if k in ("if", "impl"):
        return (k, map_vars(e[1], vmap), map_vars(e[2], vmap), map_vars(e[3], vmap))
    if k == "lcount":
        return (k, e[1], map_vars(e[2], vmap), map_vars(e[3], vmap))
    if k == "pl":
        return (k, e[1], e[2], map_vars(e[3], vmap))
    raise ValueError(k)


# ------------------------------------------------------------------ NL ordering
def normalize(m):
    """Return (model in NL order, var_perm, con_perm): var_perm[new] = old index.

    NL infers nonlinearity and integrality of a variable from its position, and wants nonlinear algebraic
    constraints first; this re-indexes variables and constraints accordingly (stable within a class)."""
    nlc, nlo = set(), set()
    for c in m.cons:
        if c["expr"] is not None:
            nlc |= vars_in(c["expr"], m)
    for c in m.lcons:
        nlc |= vars_in(c, m)          # logical constraints count as nonlinear constraint usage
    for o in m.objs:
        if o["expr"] is not None:
            nlo |= vars_in(o["expr"], m)

    def key(i):
        v = m.vars[i]
        inb, inc, ino = i in nlc and i in nlo, i in nlc, i in nlo
        if inb:
            cls = 0
        elif inc:
            cls = 1
        elif ino:
            cls = 2
        else:
            cls = 3
        if cls < 3:
            sub = 1 if v["int"] else 0
        else:
            binary = v["int"] and v["lb"] == 0 and v["ub"] == 1
            sub = 0 if not v["int"] else (1 if binary else 2)
        return (cls, sub)
    order = sorted(range(len(m.vars)), key=key)
    vmap = {old: new for new, old in enumerate(order)}
    corder = sorted(range(len(m.cons)), key=lambda i: 0 if m.cons[i]["expr"] is not None else 1)
    cmap = {old: new for new, old in enumerate(corder)}
    n = Model()
    n.vars = [dict(m.vars[o]) for o in order]
    mv = lambda e: None if e is None else map_vars(e, vmap)
    ml = lambda lin: {vmap[v]: c for v, c in lin.items()}
    for o in corder:
        c = m.cons[o]
        n.cons.append(dict(lin=ml(c["lin"]), expr=mv(c["expr"]), lb=c["lb"], ub=c["ub"],
                           compl=None if c.get("compl") is None else vmap[c["compl"]]))
    n.lcons = [mv(c) for c in m.lcons]
    n.objs = [dict(sense=o["sense"], lin=ml(o["lin"]), expr=mv(o["expr"])) for o in m.objs]
    n.dvars = [dict(lin=ml(d["lin"]), expr=mv(d["expr"])) for d in m.dvars]
    n.funcs = list(m.funcs)
    n.x0 = {vmap[v]: x for v, x in m.x0.items()}
    n.y0 = {cmap[c]: y for c, y in m.y0.items()}
    for s in m.suffixes:
        vals = s["values"]
        if s["kind"] == 0:
            vals = {vmap[i]: v for i, v in vals.items()}
        elif s["kind"] == 1:
            vals = {(cmap[i] if i < len(m.cons) else i): v for i, v in vals.items()}
        n.suffixes.append(dict(name=s["name"], kind=s["kind"], real=s["real"], values=vals))
    if m.var_names:
        n.var_names = [m.var_names[o] for o in order]
    if m.con_names:
        n.con_names = [m.con_names[o] for o in corder] + list(m.con_names[len(m.cons):])
    n.obj_names = m.obj_names
    n._nlc, n._nlo = {vmap[i] for i in nlc}, {vmap[i] for i in nlo}
    return n, order, corder


def header_counts(m):
    """Header numbers for a model already in NL order."""
    nlc = getattr(m, "_nlc", None)
    if nlc is None:
        nlc, nlo = set(), set()
        for c in m.cons:
            if c["expr"] is not None:
                nlc |= vars_in(c["expr"], m)
        for c in m.lcons:
            nlc |= vars_in(c, m)
        for o in m.objs:
            if o["expr"] is not None:
                nlo |= vars_in(o["expr"], m)
    else:
        nlo = m._nlo
    both = nlc & nlo
    nlvb = len(both)
    nlvc = len(nlc)                       # includes 'both'
    only_o = len(nlo - nlc)
    # mp (and Gay's table) read nlvo as the end of the objs-only block when that block exists
    nlvo = nlvc + only_o if only_o else nlvb
    nlvbi = sum(1 for i in both if m.vars[i]["int"])
    nlvci = sum(1 for i in (nlc - nlo) if m.vars[i]["int"])
    nlvoi = sum(1 for i in (nlo - nlc) if m.vars[i]["int"])
    nl_all = nlc | nlo
    nbv = sum(1 for i, v in enumerate(m.vars) if i not in nl_all and v["int"] and v["lb"] == 0 and v["ub"] == 1)
    niv = sum(1 for i, v in enumerate(m.vars) if i not in nl_all and v["int"]) - nbv
    return dict(nlvb=nlvb, nlvc=nlvc, nlvo=nlvo, nlvbi=nlvbi, nlvci=nlvci, nlvoi=nlvoi, nbv=nbv, niv=niv)


# ------------------------------------------------------------------ number formatting
def fnum(x):
    if isinstance(x, Fraction):
        if x.denominator == 1:
            return str(x.numerator)
        x = float(x)
    if isinstance(x, int):
        return str(x)
    if x == INF:
        return "Infinity"
    if x == -INF:
        return "-Infinity"
    if x == int(x) and abs(x) < 1e15:
        return str(int(x)) if (x != 0 or str(x)[0] != "-") else "-0"
    return repr(x)


# ------------------------------------------------------------------ emitters
class _Text:
    binary = False

    def __init__(self):
        self.out = []

    def seg(self, ch, ints=(), name=None, comment=""):
        s = ch + " ".join(str(i) for i in ints)
        if name is not None:
            s += " " + name
        self.out.append(s + "\n")

    def op(self, code):
        self.out.append("o%d\n" % code)

    def num(self, x):
        self.out.append("n%s\n" % fnum(x))

    def var(self, i):
        self.out.append("v%d\n" % i)

    def func(self, i, nargs):
        self.out.append("f%d %d\n" % (i, nargs))

    def string(self, s):
        self.out.append("h%d:%s\n" % (len(s), s))

    def count(self, n):
        self.out.append("%d\n" % n)

    def term(self, i, c):
        self.out.append("%d %s\n" % (i, fnum(c)))

    def iterm(self, i, c):
        self.out.append("%d %d\n" % (i, c))

    def bound(self, code, *vals):
        self.out.append(" ".join([str(code)] + [fnum(v) for v in vals]) + "\n")

    def compl(self, flags, var1):
        self.out.append("5 %d %d\n" % (flags, var1))

    def ival(self, v):
        self.out.append("%d\n" % v)

    def bytes(self):
        return "".join(self.out).encode("latin-1")


class _Bin:
    binary = True

    def __init__(self, swap=False):
        self.out = []
        self.e = ">" if swap else "<"

    def _i(self, v):
        return struct.pack(self.e + "i", v)

    def _d(self, v):
        return struct.pack(self.e + "d", float(v))

    def seg(self, ch, ints=(), name=None, comment=""):
        b = ch.encode()
        for i in ints:
            b += self._i(i)
        if name is not None:
            nb = name.encode("latin-1")
            b += self._i(len(nb)) + nb
        self.out.append(b)

    def op(self, code):
        self.out.append(b"o" + self._i(code))

    def num(self, x):
        x = float(x)
        if x == int(x) and -32768 <= x <= 32767 and not (x == 0 and str(x)[0] == "-"):
            self.out.append(b"s" + struct.pack(self.e + "h", int(x)))
        elif x == int(x) and -2**31 <= x < 2**31 and not (x == 0 and str(x)[0] == "-"):
            self.out.append(b"l" + self._i(int(x)))
        else:
            self.out.append(b"n" + self._d(x))

    def var(self, i):
        self.out.append(b"v" + self._i(i))

    def func(self, i, nargs):
        self.out.append(b"f" + self._i(i) + self._i(nargs))

    def string(self, s):
        sb = s.encode("latin-1")
        self.out.append(b"h" + self._i(len(sb)) + sb)

    def count(self, n):
        self.out.append(self._i(n))

    def term(self, i, c):
        self.out.append(self._i(i) + self._d(c))

    def iterm(self, i, c):
        self.out.append(self._i(i) + self._i(c))

    def bound(self, code, *vals):
        self.out.append(str(code).encode() + b"".join(self._d(v) for v in vals))

    def compl(self, flags, var1):
        self.out.append(b"5" + self._i(flags) + self._i(var1))

    def ival(self, v):
        self.out.append(self._i(v))

    def bytes(self):
        return b"".join(self.out)


def _emit_expr(w, e):
    k = e[0]
    if k == "num":
        w.num(e[1])
    elif k == "lconst":
        w.num(1 if e[1] else 0)
    elif k == "var":
        w.var(e[1])
    elif k == "cvar":
        w.var(w.nvars + e[1])
    elif k in ("neg", "abs", "pow2"):
        w.op(UNARY_OPS[k]); _emit_expr(w, e[1])
    elif k == "un":
        w.op(UNARY_OPS[e[1]]); _emit_expr(w, e[2])
    elif k in ("add", "sub", "mul", "div", "pow"):
        w.op(BINARY_OPS[k]); _emit_expr(w, e[1]); _emit_expr(w, e[2])
    elif k == "powc":
        w.op(BINARY_OPS["powcexp"]); _emit_expr(w, e[1]); w.num(e[2])
    elif k == "bin":
        w.op(BINARY_OPS[e[1]]); _emit_expr(w, e[2]); _emit_expr(w, e[3])
    elif k in ("sum", "min", "max", "count", "numberof", "forall", "exists", "alldiff", "nalldiff"):
        code = {"sum": 54, "min": 11, "max": 12, "count": 59, "numberof": 60, "forall": 70, "exists": 71,
                "alldiff": 74, "nalldiff": 75}[k]
        w.op(code); w.count(len(e[1]))
        for a in e[1]:
            _emit_expr(w, a)
    elif k == "if":
        w.op(35)
        for a in e[1:]:
            _emit_expr(w, a)
    elif k == "impl":
        w.op(72)
        for a in e[1:]:
            _emit_expr(w, a)
    elif k == "not":
        w.op(34); _emit_expr(w, e[1])
    elif k in ("or", "and", "iff"):
        w.op({"or": 20, "and": 21, "iff": 73}[k]); _emit_expr(w, e[1]); _emit_expr(w, e[2])
    elif k == "cmp":
        w.op(CMP_OPS[e[1]]); _emit_expr(w, e[2]); _emit_expr(w, e[3])
    elif k == "lcount":
        w.op(LCOUNT_OPS[e[1]]); _emit_expr(w, e[2]); _emit_expr(w, e[3])
    elif k == "pl":
        bps, slopes = e[1], e[2]
        w.op(64); w.count(len(slopes))
        for i, s in enumerate(slopes):
            w.num(s)
            if i < len(bps):
                w.num(bps[i])
        _emit_expr(w, e[3])
    elif k == "call":
        w.func(e[1], len(e[2]))
        for a in e[2]:
            if a[0] == "str":
                w.string(a[1])
            else:
                _emit_expr(w, a)
    else:
        raise ValueError("cannot emit %r" % (k,))


def _bound_rec(w, lb, ub):
    if lb == -INF and ub == INF:
        w.bound(3)
    elif lb == ub:
        w.bound(4, lb)
    elif lb == -INF:
        w.bound(1, ub)
    elif ub == INF:
        w.bound(2, lb)
    else:
        w.bound(0, lb, ub)


def emit(m, fmt="text", swap=False, bounds_first=False, colsizes="k", header_override=None, arith=None):
    """Serialise a model that is already in NL order. Returns bytes.

    fmt: 'text' | 'binary'; swap: write binary in the non-native byte order (header arith kind says so)."""
    hc = header_counts(m)
    nv, nc, no, nl = len(m.vars), len(m.cons), len(m.objs), len(m.lcons)
    nranges = sum(1 for c in m.cons if c.get("compl") is None and c["lb"] != -INF and c["ub"] != INF and c["lb"] != c["ub"])
    neqns = sum(1 for c in m.cons if c.get("compl") is None and c["lb"] == c["ub"])
    nlcons = sum(1 for c in m.cons if c["expr"] is not None)
    nlobjs = sum(1 for o in m.objs if o["expr"] is not None and not (o["expr"][0] == "num"))
    ncompl = sum(1 for c in m.cons if c.get("compl") is not None)
    nlcompl = sum(1 for c in m.cons if c.get("compl") is not None and c["expr"] is not None)
    nzc = sum(len(c["lin"]) for c in m.cons)
    nzo = sum(len(o["lin"]) for o in m.objs)
    binary = fmt == "binary"
    if arith is None:
        arith = 0 if not binary else (2 if swap else 1)   # 1 = IEEE little endian, 2 = big endian (native is little)
    h = dict(fmtc="b" if binary else "g", nv=nv, nc=nc, no=no, nranges=nranges, neqns=neqns, nl=nl,
             nlcons=nlcons, nlobjs=nlobjs, ncompl=ncompl, nlcompl=nlcompl, nfunc=len(m.funcs), arith=arith, flags=1 if m.suffixes else 0,
             nzc=nzc, nzo=nzo, ndv=len(m.dvars), **hc)
    if header_override:
        h.update(header_override)
    head = ("%(fmtc)s3 1 1 0\t# problem verif\n"
            " %(nv)d %(nc)d %(no)d %(nranges)d %(neqns)d %(nl)d\t# vars, constraints, objectives, ranges, eqns, lcons\n"
            " %(nlcons)d %(nlobjs)d %(ncompl)d %(nlcompl)d 0 0\t# nonlinear constraints, objectives; compl\n"
            " 0 0\t# network constraints: nonlinear, linear\n"
            " %(nlvc)d %(nlvo)d %(nlvb)d\t# nonlinear vars in constraints, objectives, both\n"
            " 0 %(nfunc)d %(arith)d %(flags)d\t# linear network variables; functions; arith, flags\n"
            " %(nbv)d %(niv)d %(nlvbi)d %(nlvci)d %(nlvoi)d\t# discrete variables: binary, integer, nonlinear (b,c,o)\n"
            " %(nzc)d %(nzo)d\t# nonzeros in Jacobian, gradients\n"
            " 0 0\t# max name lengths: constraints, variables\n"
            " %(ndv)d 0 0 0 0\t# common exprs: b,c,o,c1,o1\n") % h
    w = _Bin(swap) if binary else _Text()
    w.nvars = nv

    def bseg():
        w.seg("b")
        for v in m.vars:
            _bound_rec(w, v["lb"], v["ub"])
    if bounds_first:
        bseg()
    for i, f in enumerate(m.funcs):
        w.seg("F", (i, 1 if f.get("symbolic") else 0, f["nargs"]), f["name"])
    for s in m.suffixes:
        w.seg("S", ((s["kind"] | (4 if s["real"] else 0)), len(s["values"])), s["name"])
        for i, v in sorted(s["values"].items()):
            (w.term if s["real"] else w.iterm)(i, v)
    for k, d in enumerate(m.dvars):
        w.seg("V", (nv + k, len(d["lin"]), 0))
        for v, c in sorted(d["lin"].items()):
            w.term(v, c)
        _emit_expr(w, d["expr"] if d["expr"] is not None else ("num", 0))
    for i, c in enumerate(m.cons):
        w.seg("C", (i,))
        _emit_expr(w, c["expr"] if c["expr"] is not None else ("num", 0))
    for i, c in enumerate(m.lcons):
        w.seg("L", (i,))
        _emit_expr(w, c)
    for i, o in enumerate(m.objs):
        w.seg("O", (i, o["sense"]))
        _emit_expr(w, o["expr"] if o["expr"] is not None else ("num", 0))
    if m.y0:
        w.seg("d", (len(m.y0),))
        for i, v in sorted(m.y0.items()):
            w.term(i, v)
    if m.x0:
        w.seg("x", (len(m.x0),))
        for i, v in sorted(m.x0.items()):
            w.term(i, v)
    if nc:
        w.seg("r")
        for c in m.cons:
            if c.get("compl") is not None:
                vj = m.vars[c["compl"]]
                flags = (1 if vj["lb"] != -INF else 0) | (2 if vj["ub"] != INF else 0)
                w.compl(flags, c["compl"] + 1)
            else:
                _bound_rec(w, c["lb"], c["ub"])
    if not bounds_first:
        bseg()
    if nc and nv > 1 and colsizes:
        colcount = [0] * nv
        for c in m.cons:
            for v in c["lin"]:
                colcount[v] += 1
        if colsizes == "k":
            w.seg("k", (nv - 1,))
            acc = 0
            for v in range(nv - 1):
                acc += colcount[v]
                w.ival(acc)
        else:
            w.seg("K", (nv - 1,))
            for v in range(nv - 1):
                w.ival(colcount[v])
    for i, c in enumerate(m.cons):
        if c["lin"]:
            w.seg("J", (i, len(c["lin"])))
            for v, cf in sorted(c["lin"].items()):
                w.term(v, cf)
    for i, o in enumerate(m.objs):
        if o["lin"]:
            w.seg("G", (i, len(o["lin"])))
            for v, cf in sorted(o["lin"].items()):
                w.term(v, cf)
    return head.encode() + w.bytes()


# ------------------------------------------------------------------ exact evaluation
class Undefined(Exception):
    pass


def _F(x):
    return x if isinstance(x, Fraction) else Fraction(x)


def ev(e, x, m, cache=None):
    """Exact value of a numeric (Fraction) or logical (bool) expression at point x (list of Fractions)."""
    k = e[0]
    if k == "num":
        return _F(e[1])
    if k == "lconst":
        return bool(e[1])
    if k == "var":
        return x[e[1]]
    if k == "cvar":
        if cache is None:
            cache = {}
        if e[1] not in cache:
            d = m.dvars[e[1]]
            v = sum((_F(c) * x[i] for i, c in d["lin"].items()), Fraction(0))
            if d["expr"] is not None:
                v += ev(d["expr"], x, m, cache)
            cache[e[1]] = v
        return cache[e[1]]
    if k == "neg":
        return -ev(e[1], x, m, cache)
    if k == "abs":
        return abs(ev(e[1], x, m, cache))
    if k == "pow2":
        return ev(e[1], x, m, cache) ** 2
    if k == "powc":
        c = _F(e[2])
        if c.denominator != 1:
            raise Undefined("fractional power")
        b = ev(e[1], x, m, cache)
        if c < 0 and b == 0:
            raise Undefined("0^neg")
        return b ** int(c)
    if k == "pow":
        c = ev(e[2], x, m, cache)
        b = ev(e[1], x, m, cache)
        if c.denominator != 1:
            raise Undefined("fractional power")
        if c < 0 and b == 0:
            raise Undefined("0^neg")
        return b ** int(c)
    if k == "add":
        return ev(e[1], x, m, cache) + ev(e[2], x, m, cache)
    if k == "sub":
        return ev(e[1], x, m, cache) - ev(e[2], x, m, cache)
    if k == "mul":
        return ev(e[1], x, m, cache) * ev(e[2], x, m, cache)
    if k == "div":
        d = ev(e[2], x, m, cache)
        if d == 0:
            raise Undefined("division by zero")
        return ev(e[1], x, m, cache) / d
    if k == "sum":
        return sum((ev(a, x, m, cache) for a in e[1]), Fraction(0))
    if k == "min":
        return min(ev(a, x, m, cache) for a in e[1])
    if k == "max":
        return max(ev(a, x, m, cache) for a in e[1])
    if k == "if":
        return ev(e[2], x, m, cache) if ev(e[1], x, m, cache) else ev(e[3], x, m, cache)
    if k == "count":
        return Fraction(sum(1 for a in e[1] if ev(a, x, m, cache)))
    if k == "numberof":
        v0 = ev(e[1][0], x, m, cache)
        return Fraction(sum(1 for a in e[1][1:] if ev(a, x, m, cache) == v0))
    if k == "pl":
        return pl_value(e[1], e[2], ev(e[3], x, m, cache))
    if k == "not":
        return not ev(e[1], x, m, cache)
    if k == "or":
        a, b = ev(e[1], x, m, cache), ev(e[2], x, m, cache)
        return a or b
    if k == "and":
        a, b = ev(e[1], x, m, cache), ev(e[2], x, m, cache)
        return a and b
    if k == "iff":
        return bool(ev(e[1], x, m, cache)) == bool(ev(e[2], x, m, cache))
    if k == "cmp":
        a, b = ev(e[2], x, m, cache), ev(e[3], x, m, cache)
        return {"lt": a < b, "le": a <= b, "eq": a == b, "ge": a >= b, "gt": a > b, "ne": a != b}[e[1]]
    if k == "lcount":
        n, c = ev(e[2], x, m, cache), ev(e[3], x, m, cache)
        r = {"atleast": c >= n, "atmost": c <= n, "exactly": c == n,
             "natleast": not c >= n, "natmost": not c <= n, "nexactly": not c == n}[e[1]]
        return r
    if k == "impl":
        return ev(e[2], x, m, cache) if ev(e[1], x, m, cache) else ev(e[3], x, m, cache)
    if k == "forall":
        return all([ev(a, x, m, cache) for a in e[1]])
    if k == "exists":
        return any([ev(a, x, m, cache) for a in e[1]])
    if k == "alldiff":
        vals = [ev(a, x, m, cache) for a in e[1]]
        return len(set(vals)) == len(vals)
    if k == "nalldiff":
        vals = [ev(a, x, m, cache) for a in e[1]]
        return len(set(vals)) != len(vals)
    raise Undefined("no exact semantics for %r" % (k,))


def pl_value(bps, slopes, t):
    """AMPL piecewise-linear term <<b1..bn; s0..sn>> t: continuous, zero at t = 0, slope s_i between b_i and b_{i+1}."""
    bps = [_F(b) for b in bps]
    slopes = [_F(s) for s in slopes]

    def F(t):   # integral of the slope function from b_0 reference: use anchor at first breakpoint
        # value relative to bps[0]
        if t <= bps[0]:
            return slopes[0] * (t - bps[0])
        v = Fraction(0)
        for i in range(len(bps)):
            lo = bps[i]
            hi = bps[i + 1] if i + 1 < len(bps) else None
            if hi is None or t <= hi:
                return v + slopes[i + 1] * (t - lo)
            v += slopes[i + 1] * (hi - lo)
        return v
    return F(t) - F(Fraction(0))


def con_body(c, x, m, cache=None):
    v = sum((_F(cf) * x[i] for i, cf in c["lin"].items()), Fraction(0))
    if c["expr"] is not None:
        v += ev(c["expr"], x, m, cache)
    return v


def obj_value(o, x, m, cache=None):
    return con_body(o, x, m, cache)


def feasible(m, x):
    """All bounds, integrality, algebraic (incl. complementarity) and logical constraints hold at x (exact)."""
    cache = {}
    for v, xv in zip(m.vars, x):
        if xv < v["lb"] or xv > v["ub"]:
            return False
        if v["int"] and xv.denominator != 1:
            return False
    for c in m.cons:
        b = con_body(c, x, m, cache)
        if c.get("compl") is not None:
            j = c["compl"]
            vj, xj = m.vars[j], x[j]
            # AMPL: lb <= x <= ub complements body: x=lb => body>=0; x=ub => body<=0; lb<x<ub => body=0
            ok = False
            if vj["lb"] != -INF and xj == vj["lb"] and b >= 0:
                ok = True
            if vj["ub"] != INF and xj == vj["ub"] and b <= 0:
                ok = True
            if b == 0:
                ok = True
            if not ok:
                return False
        else:
            if b < c["lb"] or b > c["ub"]:
                return False
    for c in m.lcons:
        if not ev(c, x, m, cache):
            return False
    return True


# ------------------------------------------------------------------ (de)serialisation for replay files
def _enc(o):
    if isinstance(o, Fraction):
        return {"F": "%d/%d" % (o.numerator, o.denominator)}
    if isinstance(o, float):
        return {"f": repr(o)}
    if isinstance(o, tuple):
        return {"T": [_enc(x) for x in o]}
    if isinstance(o, list):
        return [_enc(x) for x in o]
    if isinstance(o, dict):
        return {"D": [[_enc(k), _enc(v)] for k, v in o.items()]}
    return o


def _dec(o):
    if isinstance(o, dict):
        if "F" in o:
            return Fraction(o["F"])
        if "f" in o:
            return float(o["f"])
        if "T" in o:
            return tuple(_dec(x) for x in o["T"])
        if "D" in o:
            return {_dec(k): _dec(v) for k, v in o["D"]}
    if isinstance(o, list):
        return [_dec(x) for x in o]
    return o


FIELDS = ("vars", "cons", "lcons", "objs", "dvars", "funcs", "suffixes", "x0", "y0", "var_names", "con_names", "obj_names")


def model_to_obj(m):
    return {k: _enc(getattr(m, k)) for k in FIELDS}


def model_from_obj(o):
    m = Model()
    for k in FIELDS:
        if k in o:
            setattr(m, k, _dec(o[k]))
    return m


def show(e):
    """Compact human-readable rendering of an expression tree (for evidence samples)."""
    k = e[0]
    if k == "num":
        return str(e[1])
    if k == "lconst":
        return "true" if e[1] else "false"
    if k == "var":
        return "x%d" % e[1]
    if k == "cvar":
        return "d%d" % e[1]
    if k == "cmp":
        return "(%s %s %s)" % (show(e[2]), {"lt": "<", "le": "<=", "eq": "==", "ge": ">=", "gt": ">", "ne": "!="}[e[1]], show(e[3]))
    if k in ("add", "sub", "mul", "div", "and", "or", "iff", "pow"):
        return "(%s %s %s)" % (show(e[1]), {"add": "+", "sub": "-", "mul": "*", "div": "/", "and": "&&", "or": "||", "iff": "<==>", "pow": "^"}[k], show(e[2]))
    if k == "powc":
        return "(%s^%s)" % (show(e[1]), e[2])
    if k == "pl":
        return "<<%s;%s>>%s" % (",".join(map(str, e[1])), ",".join(map(str, e[2])), show(e[3]))
    if k == "lcount":
        return "%s %s %s" % (e[1], show(e[2]), show(e[3]))
    if k in ("un", "bin"):
        return "%s(%s)" % (e[1], ",".join(show(c) for c in e[2:]))
    return "%s(%s)" % (k, ",".join(show(c) for c in children(e)))


def show_model(m):
    out = []
    for i, v in enumerate(m.vars):
        out.append("x%d %s [%s,%s]" % (i, "int" if v["int"] else "real", v["lb"], v["ub"]))
    for k, d in enumerate(m.dvars):
        out.append("d%d = %s + %s" % (k, d["lin"], show(d["expr"]) if d["expr"] else "0"))
    for c in m.cons:
        out.append("%s <= %s + %s <= %s%s" % (c["lb"], {("x%d" % i): str(cf) for i, cf in c["lin"].items()},
                                             show(c["expr"]) if c["expr"] else "0", c["ub"],
                                             " complements x%d" % c["compl"] if c.get("compl") is not None else ""))
    for c in m.lcons:
        out.append("L: " + show(c))
    for o in m.objs:
        out.append("%s %s + %s" % ("max" if o["sense"] else "min", {("x%d" % i): str(cf) for i, cf in o["lin"].items()},
                                   show(o["expr"]) if o["expr"] else "0"))
    return "; ".join(out)
