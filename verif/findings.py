"""Signatures of recorded findings: map a raw failure (class, replay case, description) to the root-cause key used in
KNOWN_FINDINGS.jsonl. A failure that matches no signature keeps key None and is reported as a VIOLATION."""


def classify(pid, raw_key, case, desc):
    fn = RULES.get(pid)
    if fn is None:
        return None
    return fn(raw_key, case, desc)


RULES = {}
