"""Signatures of recorded findings: map a raw failure (class, replay case, description) to the root-cause key used in
KNOWN_FINDINGS.jsonl. A failure that matches no signature keeps key None and is reported as a VIOLATION."""


def classify(pid, raw_key, case, desc):
    fn = RULES.get(pid)
    if fn is None:
        return None
    return fn(raw_key, case, desc)


import re


def _c19(raw_key, case, desc):
    # KNOWN counted-name-collision: every shared constraint name is a *derived* name (ends with a _k_ counter or a
    # _slk_/_equ_ tag appended to one); duplicates of underived (original) names are not covered.
    if raw_key == "duplicate-con-name":
        names = case.get("dups") or []
        if names and all(re.search(r"_\d+_(_(slk|equ)_)?$", n) for n in names):
            return "counted-name-collision"
    return None


RULES = {"C19": _c19}
