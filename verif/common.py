"""Shared runner pieces: build, context, result accumulation, known findings, evidence, verdict lines."""
import hashlib
import json
import os
import subprocess
import sys
import time
import collections

ROOT = os.path.dirname(os.path.dirname(os.path.abspath(__file__)))
REPO = os.environ.get("VERIF_REPO", "/repo")
BUILD = os.path.join(ROOT, "build")
EVID = os.path.join(ROOT, "evidence")
REPLAYS = os.path.join(ROOT, "replays")
KNOWN_FILE = os.path.join(ROOT, "KNOWN_FINDINGS.jsonl")
NCPU = int(os.environ.get("VERIF_JOBS", "16"))

ASAN_ENV = {
    "ASAN_OPTIONS": "detect_leaks=0:abort_on_error=0:exitcode=86:allocator_may_return_null=1:max_allocation_size_mb=2048",
    "UBSAN_OPTIONS": "print_stacktrace=1:halt_on_error=1:exitcode=87",
}


def env_with(extra=None):
    e = dict(os.environ)
    e.update(ASAN_ENV)
    if extra:
        e.update(extra)
    return e


def build(*targets):
    """(Re)build the given make targets from /repo's current working tree."""
    if not targets:
        return
    cmd = ["make", "-C", ROOT, "-j%d" % NCPU, "REPO=" + REPO] + list(targets)
    t0 = time.time()
    p = subprocess.run(cmd, stdout=subprocess.PIPE, stderr=subprocess.STDOUT, text=True)
    if p.returncode != 0:
        sys.stdout.write(p.stdout[-6000:])
        print("BUILD-FAILED targets=%s" % " ".join(targets))
        # A tree that does not compile is not a property violation; it is a broken check run.
        sys.exit(2)
    return time.time() - t0


def h(obj):
    if not isinstance(obj, (bytes, str)):
        obj = json.dumps(obj, sort_keys=True, default=str)
    if isinstance(obj, str):
        obj = obj.encode()
    return hashlib.sha1(obj).hexdigest()[:16]


class Ctx:
    def __init__(self, pid, tier, seed, replay=None):
        self.pid = pid
        self.tier = tier
        self.seed = seed
        self.replay = replay
        self.t0 = time.time()

    @property
    def quick(self):
        return self.tier == "quick"

    def pick(self, quick, thorough):
        return quick if self.quick else thorough


def load_known(pid):
    """Records of KNOWN_FINDINGS.jsonl for this property: key -> record (status known|fixed)."""
    out = {}
    if os.path.exists(KNOWN_FILE):
        for line in open(KNOWN_FILE):
            line = line.strip()
            if not line or line.startswith("#"):
                continue
            r = json.loads(line)
            if r.get("property") == pid:
                out[r["key"]] = r
    return out


class Result:
    """Accumulates what a run covered. Mergeable across worker processes (to_json/merge_json)."""

    def __init__(self):
        self.evaluations = 0
        self.nontrivial = set()          # hashes of distinct non-trivial cases
        self.samples = []
        self.labels = collections.Counter()
        self.violations = []             # list of dict(desc=..., replay=path or None, case=...)
        self.known_hits = collections.Counter()   # key -> times skipped
        self.known_examples = {}
        self.inconclusive = 0
        self.notes = []
        self.extra = {}
        self.exhaustive = False

    def case(self, case_hash=None, nontrivial=False, sample=None, labels=()):
        self.evaluations += 1
        if nontrivial and case_hash is not None:
            self.nontrivial.add(case_hash)
        if sample is not None and len(self.samples) < 8 and (nontrivial or len(self.samples) < 2):
            self.samples.append(sample)
        for l in labels:
            self.labels[l] += 1

    def label(self, *ls):
        for l in ls:
            self.labels[l] += 1

    def known(self, key, example=None):
        self.known_hits[key] += 1
        if example is not None and key not in self.known_examples:
            self.known_examples[key] = example

    def violation(self, desc, case=None, replay=None):
        self.violations.append({"desc": desc, "case": case, "replay": replay})

    def to_json(self):
        return {
            "evaluations": self.evaluations, "nontrivial": sorted(self.nontrivial), "samples": self.samples,
            "labels": dict(self.labels), "violations": self.violations, "known_hits": dict(self.known_hits),
            "known_examples": self.known_examples, "inconclusive": self.inconclusive, "notes": self.notes,
            "extra": self.extra, "exhaustive": self.exhaustive,
        }

    def merge_json(self, j):
        self.evaluations += j["evaluations"]
        self.nontrivial.update(j["nontrivial"])
        for s in j["samples"]:
            if len(self.samples) < 10:
                self.samples.append(s)
        self.labels.update(j["labels"])
        self.violations.extend(j["violations"])
        self.known_hits.update(j["known_hits"])
        for k, v in j["known_examples"].items():
            self.known_examples.setdefault(k, v)
        self.inconclusive += j["inconclusive"]
        self.notes.extend(j["notes"])
        for k, v in j.get("extra", {}).items():
            if isinstance(v, (int, float)) and isinstance(self.extra.get(k, 0), (int, float)):
                self.extra[k] = self.extra.get(k, 0) + v
            else:
                self.extra.setdefault(k, v)


def save_replay(pid, case, name=None):
    d = os.path.join(REPLAYS, pid)
    os.makedirs(d, exist_ok=True)
    name = name or ("fail-%s.json" % h(case))
    path = os.path.join(d, name)
    with open(path, "w") as f:
        json.dump(case, f, indent=1, sort_keys=True, default=str)
    return path


def finish(ctx, res, level, rule, assumptions, explanation=None):
    """Write evidence, print verdict lines, return exit code."""
    known = load_known(ctx.pid)
    os.makedirs(EVID, exist_ok=True)
    # evidence
    cov = {
        "evaluations": int(res.evaluations),
        "distinct_nontrivial": len(res.nontrivial) if isinstance(res.nontrivial, (set, list)) else int(res.nontrivial),
        "rule": rule,
        "samples": res.samples[:10],
        "labels": dict(sorted(res.labels.items(), key=lambda kv: (-kv[1], kv[0]))[:120]),
        "skipped_as_known_finding": dict(res.known_hits),
        "inconclusive": res.inconclusive,
        "exhaustive": bool(res.exhaustive),
        "notes": res.notes[:40],
    }
    if explanation:
        cov["explanation"] = explanation
    cov.update(res.extra)
    ev = {
        "property_id": ctx.pid, "tier": ctx.tier, "seed": int(ctx.seed), "level": level, "coverage": cov,
        "assumptions": assumptions, "wall_s": round(time.time() - ctx.t0, 2), "violations": len(res.violations),
    }
    with open(os.path.join(EVID, ctx.pid + ".json"), "w") as f:
        json.dump(ev, f, indent=1, default=str)
    # verdict lines
    for key, n in sorted(res.known_hits.items()):
        rec = known.get(key, {})
        print("KNOWN-FINDING: property=%s %s [%s; hit %d times this run]" % (ctx.pid, rec.get("what", key), key, n))
    rc = 0
    seen = set()
    for v in res.violations:
        rp = v.get("replay")
        if rp is None:
            rp = save_replay(ctx.pid, v.get("case") or {"desc": v["desc"]})
        if rp in seen:
            continue
        seen.add(rp)
        print("VIOLATION property=%s replay=%s" % (ctx.pid, rp))
        print("  " + str(v["desc"])[:600])
        rc = 1
    print("%s tier=%s seed=%d evaluations=%d distinct_nontrivial=%d inconclusive=%d violations=%d wall=%.1fs" % (
        ctx.pid, ctx.tier, ctx.seed, res.evaluations, cov["distinct_nontrivial"], res.inconclusive,
        len(res.violations), time.time() - ctx.t0))
    return rc


def run_workers(fn, nworkers, *args):
    """Run fn(worker_index, *args) -> Result in forked processes; merge. fn must be picklable-free (fork)."""
    import multiprocessing as mp
    ctxm = mp.get_context("fork")
    q = ctxm.Queue()

    def wrap(i):
        try:
            r = fn(i, *args)
            q.put((i, r.to_json(), None))
        except BaseException as e:  # harness error, not a property verdict
            import traceback
            q.put((i, None, traceback.format_exc()))

    procs = [ctxm.Process(target=wrap, args=(i,)) for i in range(nworkers)]
    for p in procs:
        p.start()
    total = Result()
    errors = []
    for _ in procs:
        i, j, err = q.get()
        if err:
            errors.append((i, err))
        else:
            total.merge_json(j)
    for p in procs:
        p.join()
    if errors:
        for i, e in errors:
            sys.stdout.write("HARNESS-ERROR worker %d:\n%s\n" % (i, e))
        sys.exit(2)
    return total


def alloc_limit(run, res):
    """True (and counted as inconclusive) when the run ended because one request exceeded the allocation cap that ASAN_OPTIONS sets for
    every check (max_allocation_size_mb): a limit of the harness, not a verdict about the code."""
    if getattr(run, "timed_out", False):
        # the 60 s guard of one driver run expired (seen under load for a model that produces 1.5 million constraints): the driver was
        # killed, whatever it had written is cut off - a time budget hit is inconclusive, never a verdict
        res.inconclusive += 1
        res.label("guard-expired (per-run time limit of the driver)")
        return True
    err = getattr(run, "err", "") or ""
    if "out-of-memory" in err or "allocation-size-too-big" in err or "requested allocation size" in err or "allocator is out of memory" in err:
        res.inconclusive += 1
        res.label("allocator-limit (one request above the sanitizer allocation cap)")
        return True
    return False


def crash_head(err, n=5):
    """The informative part of a sanitizer report: the error line and the first frames inside /repo."""
    lines = err.splitlines()
    out = []
    for i, l in enumerate(lines):
        if "runtime error:" in l or "ERROR: AddressSanitizer" in l or "SUMMARY:" in l:
            out.append(l.strip()[:300])
    frames = [l.strip()[:200] for l in lines if "/repo/" in l and l.strip().startswith("#")]
    return " | ".join(out[:3] + frames[:n])
