"""Independent parser/writer of the ASL text .sol format ("Hooking Your Solver to AMPL"), used by the driver-level checks
so that they do not depend on the two .sol implementations that C05/C14 are about."""


class SolParseError(Exception):
    pass


class Sol:
    def __init__(self):
        self.message = []
        self.options = None
        self.vbtol = None
        self.ncons = self.nduals = self.nvars = self.nprimals = None
        self.duals, self.primals = [], []
        self.objno = None
        self.code = None
        self.suffixes = []   # dict(kind, name, table, values{idx: val}, real)

    def suffix(self, name, kind):
        for s in self.suffixes:
            if s["name"] == name and (s["kind"] & 3) == kind:
                return s
        return None


def parse(text, strict=True):
    """Parse a complete text .sol. Raises SolParseError when the file is truncated or malformed."""
    if isinstance(text, bytes):
        text = text.decode("latin-1")
    lines = text.split("\n")
    if lines and lines[-1] == "":
        lines.pop()
    else:
        if strict and text:
            raise SolParseError("file does not end with a newline")
    s = Sol()
    i = 0
    # message: up to the first empty line
    while i < len(lines) and lines[i] != "":
        s.message.append(lines[i])
        i += 1
    if i >= len(lines):
        raise SolParseError("no blank line after message")
    i += 1
    # some writers emit extra blank lines
    while i < len(lines) and lines[i] == "":
        i += 1
    if i >= len(lines) or lines[i].strip() != "Options":
        raise SolParseError("expected 'Options', got %r" % (lines[i] if i < len(lines) else None))
    i += 1

    def need(k):
        if i + k > len(lines):
            raise SolParseError("truncated")

    def integer(sv):
        try:
            return int(sv.strip())
        except ValueError:
            raise SolParseError("expected integer, got %r" % sv)

    def real(sv):
        try:
            return float(sv.strip())
        except ValueError:
            raise SolParseError("expected number, got %r" % sv)
    need(1)
    nopt = integer(lines[i]); i += 1
    if nopt < 3 or nopt > 9:
        raise SolParseError("bad number of options %d" % nopt)
    need(nopt)
    s.options = [integer(l) for l in lines[i:i + nopt]]
    i += nopt
    need(4)
    # ASL writes vbtol right after the options when ampl_options[4]==3 (only if at least 5 options)
    if nopt >= 5 and s.options[4] == 3:
        s.vbtol = real(lines[i]); i += 1
        need(4)
    s.ncons, s.nduals, s.nvars, s.nprimals = [integer(l) for l in lines[i:i + 4]]
    i += 4
    if min(s.ncons, s.nduals, s.nvars, s.nprimals) < 0:
        raise SolParseError("negative count")
    need(s.nduals + s.nprimals)
    s.duals = [real(l) for l in lines[i:i + s.nduals]]; i += s.nduals
    s.primals = [real(l) for l in lines[i:i + s.nprimals]]; i += s.nprimals
    if i < len(lines):
        p = lines[i].split()
        if len(p) != 3 or p[0] != "objno":
            raise SolParseError("expected objno line, got %r" % lines[i])
        s.objno, s.code = integer(p[1]), integer(p[2])
        i += 1
    elif strict:
        raise SolParseError("missing objno line")
    while i < len(lines):
        p = lines[i].split()
        if len(p) != 6 or p[0] != "suffix":
            raise SolParseError("expected suffix header, got %r" % lines[i])
        kind, n, namelen, tablen, tablines = [integer(v) for v in p[1:]]
        i += 1
        need(1)
        name = lines[i]; i += 1
        if len(name) + 1 != namelen:
            raise SolParseError("suffix name length mismatch %r %d" % (name, namelen))
        table = None
        if tablen:
            need(tablines)
            table = "\n".join(lines[i:i + tablines]); i += tablines
        need(n)
        vals = {}
        isreal = bool(kind & 4)
        for l in lines[i:i + n]:
            q = l.split()
            if len(q) != 2:
                raise SolParseError("bad suffix value line %r" % l)
            vals[integer(q[0])] = real(q[1]) if isreal else integer(q[1])
        i += n
        s.suffixes.append(dict(kind=kind, name=name, table=table, values=vals, real=isreal))
    return s


def write(message, options, ncons, nvars, duals, primals, objno, code, suffixes=()):
    """Text .sol as a solver would write it (for feeding readers)."""
    out = []
    for l in message:
        out.append(l if l != "" else " ")
    out.append("")
    out.append("Options")
    out.append(str(len(options)))
    out += [str(o) for o in options]
    out += [str(ncons), str(len(duals)), str(nvars), str(len(primals))]
    out += [repr(float(d)) for d in duals]
    out += [repr(float(p)) for p in primals]
    out.append("objno %d %d" % (objno, code))
    for s in suffixes:
        tab = s.get("table")
        tablen = len(tab) + 1 if tab else 0
        tablines = tab.count("\n") + 1 if tab else 0
        out.append("suffix %d %d %d %d %d" % (s["kind"], len(s["values"]), len(s["name"]) + 1, tablen, tablines))
        out.append(s["name"])
        if tab:
            out.append(tab)
        for k, v in sorted(s["values"].items()):
            out.append("%d %s" % (k, repr(float(v)) if s["kind"] & 4 else str(int(v))))
    return "\n".join(out) + "\n"
