"""Hypothesis strategies for NL models in the exactly-reformulable fragment (C01 and the properties built on it).

Built by construction (no assume/filter). Every numeric expression carries:
  deg  - polynomial degree as the flattener sees it (functional results count as a fresh variable, degree 1)
  res  - k such that the value at every grid point is a multiple of 2^-k
  isint - value is an integer at every grid point
A comparison is only built if both operands have res <= MAXRES, so that on the grid every compared difference is
either 0 or at least 2^-MAXRES >> cvt:mip:eps; this is what makes strict / negated comparisons exact on the grid.
"""
from fractions import Fraction as F

from hypothesis import strategies as st

from . import nl

MAXRES = 6
GRID_RES = 2         # continuous variables are judged on multiples of 1/4 (quick tier uses the coarser 1/2 subset)

INT_DOMAINS = [(0, 1), (0, 1), (-3, 3), (0, 5), (2, 2), (-2, 0), (1, 4), (-1, 1), (0, 3), (-3, 1)]   # incl. asymmetric zero-crossing, both ways
CONT_DOMAINS = [(F(-2), F(2)), (F(0), F(4)), (F(-4), F(-1)), (F(3, 2), F(3, 2)), (F(0), F(1)), (F(-1), F(3)), (F(-3), F(0)), (F(-3), F(1)), (F(-5, 2), F(1, 2))]

CONSTS = [F(0), F(1), F(-1), F(2), F(-2), F(1, 2), F(-1, 2), F(3), F(-3), F(1, 4), F(3, 2), F(-3, 2), F(5), F(4), F(-4), F(5, 2), F(3, 4)]
COEFS = [F(1), F(-1), F(2), F(-2), F(1, 2), F(-1, 2), F(3), F(-3), F(1, 4), F(3, 2)]
DIVISORS = [F(1), F(-1), F(2), F(-2), F(4), F(1, 2), F(-1, 2)]


class E:
    """expression with tracked attributes"""
    __slots__ = ("t", "deg", "res", "isint", "nbprod", "ops")

    def __init__(self, t, deg=0, res=0, isint=True, nbprod=False, ops=()):
        self.t, self.deg, self.res, self.isint, self.nbprod, self.ops = t, deg, res, isint, nbprod, frozenset(ops)


def _cres(c):
    c = F(c)
    k = 0
    while (c * 2 ** k).denominator != 1:
        k += 1
    return k


def const_e(c):
    return E(("num", F(c)), 0, _cres(c), F(c).denominator == 1)


class Ctx:
    def __init__(self, draw, vars_, dvars, allow, budget):
        self.draw, self.vars, self.dvars, self.allow, self.budget = draw, vars_, dvars, allow, budget

    def spend(self, n=1):
        self.budget -= n
        return self.budget > 0


def var_e(ctx, i):
    v = ctx.vars[i]
    return E(("var", i), 1, 0 if v["int"] else GRID_RES, v["int"])


def leaf(ctx, want_int=False):
    d = ctx.draw
    choices = []
    ivars = [i for i, v in enumerate(ctx.vars) if v["int"]]
    if want_int:
        if ivars:
            choices += ["ivar"] * 3
        choices += ["iconst"]
        idv = [k for k, dv in enumerate(ctx.dvars) if dv.isint]
        if idv:
            choices.append("idvar")
    else:
        choices += ["var"] * 4 + ["const"]
        if ctx.dvars:
            choices += ["dvar"] * 2
    c = d(st.sampled_from(choices))
    if c == "var":
        return var_e(ctx, d(st.integers(0, len(ctx.vars) - 1)))
    if c == "ivar":
        return var_e(ctx, d(st.sampled_from(ivars)))
    if c == "const":
        return const_e(d(st.sampled_from(CONSTS)))
    if c == "iconst":
        return const_e(d(st.sampled_from([F(0), F(1), F(-1), F(2), F(3), F(-2)])))
    if c in ("dvar", "idvar"):
        ks = [k for k, dv in enumerate(ctx.dvars) if (dv.isint or c == "dvar")]
        k = d(st.sampled_from(ks))
        dv = ctx.dvars[k]
        return E(("cvar", k), 1, dv.res, dv.isint, False, dv.ops | {"dvar"})
    raise AssertionError(c)


def is_binary_var_expr(ctx, e):
    if e.t[0] == "var":
        v = ctx.vars[e.t[1]]
        return v["int"] and v["lb"] == 0 and v["ub"] == 1
    return False


def numeric(ctx, depth, maxdeg=2, want_int=False):
    """Draw a numeric expression with deg <= maxdeg and res <= MAXRES."""
    d = ctx.draw
    if depth <= 0 or not ctx.spend():
        return leaf(ctx, want_int)
    ops = ["leaf"] * 3 + ["add", "sub", "neg", "sum", "mulc"]
    al = ctx.allow
    if not want_int:
        if "div" in al:
            ops.append("div")
        if "pl" in al:
            ops.append("pl")
    if maxdeg >= 2 and "mul" in al:
        ops += ["mul", "pow2"]
    for o in ("abs", "min", "max", "if", "count", "numberof"):
        if o in al:
            ops.append(o)
    if "ext" in al and not want_int:
        ops += ["un", "un", "binx", "powg", "call"]
    op = d(st.sampled_from(ops))
    if op == "leaf":
        return leaf(ctx, want_int)
    if op == "un":
        name = d(st.sampled_from(EXT_UNARY))
        a = numeric(ctx, depth - 1, 1)
        return E(("un", name, a.t), 1, 0, False, a.nbprod, a.ops | {"un:" + name})
    if op == "binx":
        name = d(st.sampled_from(EXT_BINARY))
        a, b = numeric(ctx, depth - 1, 1), numeric(ctx, depth - 1, 1)
        return E(("bin", name, a.t, b.t), 1, 0, False, True, a.ops | b.ops | {"bin:" + name})
    if op == "powg":
        a = numeric(ctx, depth - 1, 1)
        form = d(st.sampled_from(["cexp", "cbase", "var"]))
        c = d(st.sampled_from([F(3), F(1, 2), F(-1), F(5, 2), F(4), F(0), F(-2), F(4), F(6), F(2)]))    # even exponents: the zero-crossing case of the bounds
        if form == "cexp":
            t = ("powc", a.t, c)
        elif form == "cbase":
            t = ("pow", ("num", abs(c) + F(1, 2)), a.t)
        else:
            t = ("pow", a.t, numeric(ctx, 0, 1).t)
        return E(t, 1, 0, False, True, a.ops | {"pow:" + form})
    if op == "call":
        args = [numeric(ctx, depth - 1, 1).t for _ in range(d(st.integers(0, 2)))]
        if d(st.booleans()):
            args.append(("str", d(st.sampled_from(["abc", "", "x y"]))))
        return E(("call", 0, args), 1, 0, False, True, {"call"})
    if op in ("add", "sub"):
        a = numeric(ctx, depth - 1, maxdeg, want_int)
        b = numeric(ctx, depth - 1, maxdeg, want_int)
        return E((op, a.t, b.t), max(a.deg, b.deg), max(a.res, b.res), a.isint and b.isint, a.nbprod or b.nbprod, a.ops | b.ops | {op})
    if op == "neg":
        a = numeric(ctx, depth - 1, maxdeg, want_int)
        return E(("neg", a.t), a.deg, a.res, a.isint, a.nbprod, a.ops | {"neg"})
    if op == "sum":
        n = d(st.integers(3, 4))   # the NL format requires >= 3 operands for sum/forall/exists
        xs = [numeric(ctx, depth - 1, maxdeg, want_int) for _ in range(n)]
        return E(("sum", [x.t for x in xs]), max(x.deg for x in xs), max(x.res for x in xs), all(x.isint for x in xs),
                 any(x.nbprod for x in xs), frozenset().union(*[x.ops for x in xs]) | {"sum"})
    if op == "mulc":
        c = d(st.sampled_from([F(2), F(-1), F(-2), F(3)] if want_int else COEFS))
        a = numeric(ctx, depth - 1, maxdeg, want_int)
        if a.res + _cres(c) > MAXRES:
            return a
        ce = const_e(c)
        t = ("mul", ce.t, a.t) if d(st.booleans()) else ("mul", a.t, ce.t)
        return E(t, a.deg, a.res + ce.res, a.isint and ce.isint, a.nbprod, a.ops | {"mulc"})
    if op == "div":
        c = d(st.sampled_from(DIVISORS))
        a = numeric(ctx, depth - 1, maxdeg, False)
        extra = _cres(1 / c)
        if a.res + extra > MAXRES:
            return a
        return E(("div", a.t, ("num", c)), a.deg, a.res + extra, False, a.nbprod, a.ops | {"div"})
    if op == "mul":
        a = numeric(ctx, depth - 1, 1, want_int)
        b = numeric(ctx, depth - 1, 1, want_int)
        if a.res + b.res > MAXRES:
            return a
        nb = a.nbprod or b.nbprod or (a.deg > 0 and b.deg > 0 and not (is_binary_var_expr(ctx, a) or is_binary_var_expr(ctx, b)))
        return E(("mul", a.t, b.t), a.deg + b.deg, a.res + b.res, a.isint and b.isint, nb, a.ops | b.ops | {"mul"})
    if op == "pow2":
        a = numeric(ctx, depth - 1, 1, want_int)
        if 2 * a.res > MAXRES:
            return a
        form = d(st.sampled_from(["pow2", "powc", "pow"]))
        t = ("pow2", a.t) if form == "pow2" else (("powc", a.t, F(2)) if form == "powc" else ("pow", a.t, ("num", F(2))))
        return E(t, 2 * a.deg, 2 * a.res, a.isint, a.nbprod or a.deg > 0, a.ops | {"pow2"})
    if op == "abs":
        a = numeric(ctx, depth - 1, maxdeg, want_int)
        return E(("abs", a.t), min(1, a.deg), a.res, a.isint, a.nbprod, a.ops | {"abs"})
    if op in ("min", "max"):
        n = d(st.integers(1, 3))
        xs = [numeric(ctx, depth - 1, maxdeg, want_int) for _ in range(n)]
        return E((op, [x.t for x in xs]), 1, max(x.res for x in xs), all(x.isint for x in xs), any(x.nbprod for x in xs),
                 frozenset().union(*[x.ops for x in xs]) | {op})
    if op == "if":
        c = logical(ctx, depth - 1)
        a = numeric(ctx, depth - 1, maxdeg, want_int)
        b = numeric(ctx, depth - 1, maxdeg, want_int)
        return E(("if", c.t, a.t, b.t), 1, max(a.res, b.res), a.isint and b.isint, a.nbprod or b.nbprod or c.nbprod,
                 a.ops | b.ops | c.ops | {"if"})
    if op == "count":
        n = d(st.integers(1, 3))
        ls = [logical(ctx, depth - 1) for _ in range(n)]
        return E(("count", [l.t for l in ls]), 1, 0, True, any(l.nbprod for l in ls), frozenset().union(*[l.ops for l in ls]) | {"count"})
    if op == "numberof":
        n = d(st.integers(1, 3))
        val = numeric(ctx, 0 if d(st.booleans()) else depth - 1, 1, True)
        if d(st.booleans()):
            val = const_e(d(st.sampled_from([F(0), F(1), F(2), F(-1)])))
        xs = [numeric(ctx, depth - 1, 1, True) for _ in range(n)]
        return E(("numberof", [val.t] + [x.t for x in xs]), 1, 0, True, val.nbprod or any(x.nbprod for x in xs),
                 val.ops | frozenset().union(*[x.ops for x in xs]) | {"numberof_var" if val.deg > 0 else "numberof_const"})
    if op == "pl":
        i = d(st.integers(0, len(ctx.vars) - 1))
        nb = d(st.integers(1, 3))
        bps = sorted(d(st.lists(st.sampled_from([F(-2), F(-1), F(0), F(1), F(2), F(3), F(1, 2), F(-3, 2)]), min_size=nb, max_size=nb, unique=True)))
        slopes = d(st.lists(st.sampled_from([F(0), F(1), F(-1), F(2), F(1, 2), F(-2), F(3)]), min_size=nb + 1, max_size=nb + 1))
        a = var_e(ctx, i)
        return E(("pl", bps, slopes, a.t), 1, a.res + 2 if a.res + 2 > 1 else 1, False, False, {"pl"})
    raise AssertionError(op)


def logical(ctx, depth):
    d = ctx.draw
    al = ctx.allow
    if depth <= 0 or not ctx.spend():
        ops = ["cmp"] * 4 + ["lconst"]
    else:
        ops = ["cmp"] * 5 + ["not", "and", "or", "lconst"]
        for o in ("iff", "forall", "exists", "impl", "lcount", "alldiff"):
            if o in al:
                ops.append(o)
        if "ext" in al:
            ops.append("nalldiff")
    op = d(st.sampled_from(ops))
    if op == "lconst":
        return E(("lconst", d(st.integers(0, 1))), 0, 0, True, False, {"lconst"})
    if op == "cmp":
        rel = d(st.sampled_from(["lt", "le", "eq", "ge", "gt", "ne"]))
        if d(st.integers(0, 5)) == 0 and any(v["int"] for v in ctx.vars):
            # an integer-valued body against a fractional constant: the roundings of <, <=, >=, > differ exactly here
            a = numeric(ctx, depth - 1, 1, want_int=True)
            b = const_e(d(st.sampled_from([F(1, 2), F(5, 2), F(-3, 2), F(3, 2), F(-1, 2), F(7, 4), F(1, 4)])))
        else:
            a = numeric(ctx, depth - 1, 2 if "quadcmp" in al else 1)
            b = numeric(ctx, depth - 1 if d(st.booleans()) else 0, 1)
        if d(st.integers(0, 9)) == 0:
            a, b = b, a
        return E(("cmp", rel, a.t, b.t), 0, 0, True, a.nbprod or b.nbprod, a.ops | b.ops | {"cmp_" + rel})
    if op == "not":
        a = logical(ctx, depth - 1)
        return E(("not", a.t), 0, 0, True, a.nbprod, a.ops | {"not"})
    if op in ("and", "or", "iff"):
        a, b = logical(ctx, depth - 1), logical(ctx, depth - 1)
        return E((op, a.t, b.t), 0, 0, True, a.nbprod or b.nbprod, a.ops | b.ops | {op})
    if op in ("forall", "exists"):
        n = d(st.integers(3, 4))
        ls = [logical(ctx, depth - 1) for _ in range(n)]
        return E((op, [l.t for l in ls]), 0, 0, True, any(l.nbprod for l in ls), frozenset().union(*[l.ops for l in ls]) | {op})
    if op == "impl":
        c, t = logical(ctx, depth - 1), logical(ctx, depth - 1)
        if d(st.booleans()):
            f = logical(ctx, depth - 1)
        else:
            f = E(("lconst", 1), ops={"impl_noelse"})   # 'c ==> t' without else: else-branch is true
        return E(("impl", c.t, t.t, f.t), 0, 0, True, c.nbprod or t.nbprod or f.nbprod, c.ops | t.ops | f.ops | {"impl"})
    if op == "lcount":
        kind = d(st.sampled_from(["atleast", "atmost", "exactly", "natleast", "natmost", "nexactly"]))
        n = d(st.integers(1, 3))
        ls = [logical(ctx, depth - 1) for _ in range(n)]
        if d(st.integers(0, 3)) == 0:
            k = numeric(ctx, 1, 1, True)
        else:
            k = const_e(d(st.integers(0, n)))
        return E(("lcount", kind, k.t, ("count", [l.t for l in ls])), 0, 0, True, k.nbprod or any(l.nbprod for l in ls),
                 k.ops | frozenset().union(*[l.ops for l in ls]) | {kind})
    if op == "nalldiff":
        xs = [numeric(ctx, depth - 1, 1, True) for _ in range(d(st.integers(2, 3)))]
        return E(("nalldiff", [x.t for x in xs]), 0, 0, True, True, {"nalldiff"})
    if op == "alldiff":
        n = d(st.integers(2, 3))
        xs = [numeric(ctx, depth - 1, 1, True) for _ in range(n)]
        return E(("alldiff", [x.t for x in xs]), 0, 0, True, any(x.nbprod for x in xs), frozenset().union(*[x.ops for x in xs]) | {"alldiff"})
    raise AssertionError(op)


EXT_UNARY = ["floor", "ceil", "tanh", "tan", "sqrt", "sinh", "sin", "log10", "log", "exp", "cosh", "cos", "atanh", "atan", "asinh",
             "asin", "acosh", "acos"]
EXT_BINARY = ["mod", "less", "atan2", "intdiv", "precision", "round", "trunc"]
FULL_EXACT = frozenset(["div", "pl", "mul", "abs", "min", "max", "if", "count", "numberof", "iff", "forall", "exists", "impl",
                        "lcount", "alldiff", "quadcmp"])


@st.composite
def models(draw, max_vars=4, allow=FULL_EXACT, max_cons=3, max_lcons=2, with_obj=True, depth=3, budget=22, n_objs=None):
    """NL model (not yet in NL order) + info dict."""
    nv = draw(st.integers(1, max_vars))
    vars_ = []
    for _ in range(nv):
        if "ext" in allow and draw(st.integers(0, 5)) == 0:
            lb, ub, it = draw(st.sampled_from([(-nl.INF, nl.INF, False), (F(0), nl.INF, False), (-nl.INF, F(3), True), (F(0), nl.INF, True),
                                               (F(-10**9), F(10**9), True), (F(1), F(0), False)]))
            vars_.append(dict(lb=lb, ub=ub, int=it))
        elif draw(st.integers(0, 9)) < 6:
            lb, ub = draw(st.sampled_from(INT_DOMAINS))
            vars_.append(dict(lb=F(lb), ub=F(ub), int=True))
        else:
            lb, ub = draw(st.sampled_from(CONT_DOMAINS))
            vars_.append(dict(lb=lb, ub=ub, int=False))
    m = nl.Model()
    m.vars = vars_
    if "ext" in allow:
        m.funcs = [dict(name="myfunc", nargs=-1, symbolic=True)]
    ctx = Ctx(draw, vars_, [], allow, budget)
    info = dict(ops=set(), nbprod=False)

    def note(e):
        info["ops"] |= set(e.ops)
        info["nbprod"] = info["nbprod"] or e.nbprod
    ndv = draw(st.sampled_from([0, 0, 1, 2]))
    for _ in range(ndv):
        ctx.budget = max(ctx.budget, 6)
        e = numeric(ctx, 2, 1)
        lin = {}
        if draw(st.booleans()):
            i = draw(st.integers(0, nv - 1))
            lin[i] = draw(st.sampled_from(COEFS))
        res = max([e.res] + [_cres(c) + (0 if vars_[i]["int"] else GRID_RES) for i, c in lin.items()])
        isint = e.isint and all(vars_[i]["int"] and c.denominator == 1 for i, c in lin.items())
        dv = E(None, 1, res, isint, e.nbprod, e.ops)
        if res > MAXRES - 2:
            continue
        m.dvars.append(dict(lin=lin, expr=e.t))
        ctx.dvars.append(dv)
    nc = draw(st.integers(0, max_cons))
    nlc = draw(st.integers(0, max_lcons))
    if nc + nlc == 0:
        nc = 1
    for _ in range(nc):
        ctx.budget = budget
        lin = {}
        for i in draw(st.lists(st.integers(0, nv - 1), max_size=min(nv, 3), unique=True)):
            lin[i] = draw(st.sampled_from(COEFS))
        expr = None
        if draw(st.integers(0, 9)) < 7 or not lin:
            e = numeric(ctx, depth, 2)
            note(e)
            expr = e.t
        kind = draw(st.sampled_from(["range", "le", "ge", "eq", "le", "ge"]))
        a = draw(st.sampled_from([F(-4), F(-2), F(-1), F(0), F(1, 2), F(1), F(2), F(3), F(5), F(-1, 2), F(7, 4)]))
        w = draw(st.sampled_from([F(1, 2), F(1), F(2), F(3), F(6)]))
        if kind == "range":
            lb, ub = a, a + w
        elif kind == "le":
            lb, ub = -nl.INF, a
        elif kind == "ge":
            lb, ub = a, nl.INF
        else:
            lb = ub = a
        m.cons.append(dict(lin=lin, expr=expr, lb=lb, ub=ub, compl=None))
    for _ in range(nlc):
        ctx.budget = budget
        e = logical(ctx, depth)
        note(e)
        m.lcons.append(e.t)
    no = n_objs if n_objs is not None else (draw(st.integers(0, 1)) if with_obj else 0)
    for _ in range(no):
        ctx.budget = budget // 2
        lin = {}
        for i in draw(st.lists(st.integers(0, nv - 1), max_size=min(nv, 3), unique=True)):
            lin[i] = draw(st.sampled_from(COEFS))
        expr = None
        if "if" in allow and draw(st.integers(0, 7)) == 0:
            # a one-sided use of an if-then-else whose branches are (shifted) variables with overlapping ranges: the condition then
            # needs both directions of its reification although the result is only bounded from one side
            c = logical(ctx, 1)
            a, b = leaf(ctx), leaf(ctx)
            e = E(("if", c.t, a.t, b.t), 1, max(a.res, b.res), a.isint and b.isint, a.nbprod or b.nbprod or c.nbprod, a.ops | b.ops | c.ops | {"if"})
            note(e)
            expr = e.t
        elif draw(st.booleans()):
            e = numeric(ctx, depth - 1, 2)
            note(e)
            expr = e.t
        m.objs.append(dict(sense=draw(st.integers(0, 1)), lin=lin, expr=expr))
    for dv in ctx.dvars:
        info["ops"] |= set(dv.ops)
        info["nbprod"] = info["nbprod"] or dv.nbprod
    if m.dvars:
        info["ops"].add("dvar")
    return m, info


# ------------------------------------------------------------------ acceptance configurations
CONVERTIBLE_TYPES = [
    "LinConRange", "QuadConRange", "QuadConLE", "QuadConEQ", "QuadConGE",
    "MaxConstraint", "MinConstraint", "AbsConstraint", "AndConstraint", "OrConstraint", "NotConstraint",
    "CondLinConEQ", "CondLinConLE", "CondLinConLT", "CondLinConGE", "CondLinConGT",
    "CondQuadConEQ", "CondQuadConLE", "CondQuadConLT", "CondQuadConGE", "CondQuadConGT",
    "DivConstraint", "IfThenConstraint", "ImplicationConstraint", "AllDiffConstraint", "NumberofConstConstraint",
    "NumberofVarConstraint", "CountConstraint", "PowConstraint",
    "IndicatorLinConLE", "IndicatorLinConEQ", "IndicatorLinConGE", "IndicatorQuadConLE", "IndicatorQuadConEQ", "IndicatorQuadConGE",
    "PLConstraint", "SOS1Constraint", "SOS2Constraint", "ComplementarityLinear", "ComplementarityQuadratic",
    "LinearFunctionalConstraint", "QuadraticFunctionalConstraint",
]
CONE_TYPES = ["QuadraticConeConstraint", "RotatedQuadraticConeConstraint", "ExponentialConeConstraint", "PowerConeConstraint",
              "GeometricConeConstraint"]
# what real ModelAPIs in solvers/ accept (plus the linear rows every ModelAPI must accept)
TYPICAL_NATIVE = ["LinConRange", "QuadConLE", "QuadConEQ", "QuadConGE", "QuadConRange", "IndicatorLinConLE", "IndicatorLinConEQ",
                  "IndicatorLinConGE", "SOS1Constraint", "SOS2Constraint", "PLConstraint", "MaxConstraint", "MinConstraint",
                  "AbsConstraint", "AndConstraint", "OrConstraint", "PowConstraint", "DivConstraint"]


@st.composite
def acceptance(draw):
    """(levels dict, default, quadobj, nonconvexqc, label)"""
    mode = draw(st.sampled_from(["all", "none", "typical", "typical_subset", "random", "random"]))
    levels = {}
    if mode == "all":
        default = draw(st.sampled_from([2, 2, 1]))
        # LFC/QFC are internal; keep them convertible unless explicitly exercised
        levels["LinearFunctionalConstraint"] = 0
        levels["QuadraticFunctionalConstraint"] = 0
        for t in CONE_TYPES:
            levels[t] = 0
    elif mode == "none":
        default = 0
    elif mode == "typical":
        default = 0
        for t in TYPICAL_NATIVE:
            levels[t] = draw(st.sampled_from([2, 2, 1]))
    elif mode == "typical_subset":
        default = 0
        for t in draw(st.lists(st.sampled_from(TYPICAL_NATIVE), unique=True)):
            levels[t] = draw(st.sampled_from([2, 1]))
    else:
        default = 0
        for t in draw(st.lists(st.sampled_from(CONVERTIBLE_TYPES[:-2]), unique=True, max_size=14)):
            levels[t] = draw(st.sampled_from([2, 1]))
    for t in ("LinConLE", "LinConEQ", "LinConGE"):
        levels[t] = 2
    quadobj = draw(st.sampled_from([0, 1, 2]))
    nonconvex = draw(st.integers(0, 1))
    return dict(levels=levels, default=default, quadobj=quadobj, nonconvexqc=nonconvex, mode=mode)


@st.composite
def cvt_options(draw):
    opts = []
    if draw(st.integers(0, 3)) == 0:
        return opts
    pool = [("cvt:pre:all", [0, 1]), ("cvt:pre:eqresult", [0, 1]), ("cvt:pre:eqbinary", [0, 1]), ("cvt:pre:unnest", [0, 1]),
            ("cvt:quadcon", [0, 1]), ("cvt:quadobj", [0, 1]), ("cvt:uenc:ratio", [0, 0.5, 1e6]),
            ("cvt:uenc:negctx:max", [0, 2, 100]), ("cvt:bigM", [1e3, 1e5]), ("cvt:sos", [0, 1]), ("cvt:sos2", [0, 1]),
            ("cvt:mip:eps", [1e-4, 1e-3, 1e-5])]
    for name, vals in draw(st.lists(st.sampled_from(pool), unique_by=lambda p: p[0], max_size=4)):
        opts.append("%s=%s" % (name, draw(st.sampled_from(vals))))
    return opts
