"""Shared libFuzzer campaign runner (C14, C11; C02 has its own, older copy of the same logic)."""
import glob
import json
import os
import shutil
import subprocess
from concurrent.futures import ThreadPoolExecutor

from . import common

ENV = {"ASAN_OPTIONS": "detect_leaks=0:max_allocation_size_mb=1024:allocator_may_return_null=1:abort_on_error=0",
       "UBSAN_OPTIONS": "print_stacktrace=1:halt_on_error=1"}


def env(stats=None):
    e = dict(os.environ)
    e.update(ENV)
    if stats:
        e["FUZZ_STATS"] = stats
    return e


def run_files(binp, paths, stats=None, timeout=900):
    p = subprocess.run([binp, "-rss_limit_mb=6000", "-malloc_limit_mb=100000"] + list(paths), env=env(stats), stdout=subprocess.PIPE,
                       stderr=subprocess.PIPE, timeout=timeout)
    return p.returncode, p.stderr.decode("latin-1")


def classify(err, tag):
    if tag in err:
        return "oracle:" + err.split(tag + ":")[1].split("\n")[0].strip()[:90]
    for l in err.splitlines():
        if "runtime error:" in l:
            return "ubsan:" + l.split("runtime error:")[1].strip()[:90]
        if "ERROR: AddressSanitizer" in l:
            return "asan:" + l.split("AddressSanitizer:")[1].strip()[:70]
    return "crash"


def sum_stats(path, into):
    if os.path.exists(path):
        for l in open(path):
            try:
                j = json.loads(l)
            except ValueError:
                continue
            for k, v in j.items():
                if isinstance(v, (int, float)):
                    into[k] = into.get(k, 0) + v
                elif isinstance(v, list):
                    old = into.get(k, [0] * len(v))
                    into[k] = [a + b for a, b in zip(old, v)]
                elif isinstance(v, dict):
                    d = into.setdefault(k, {})
                    for kk, vv in v.items():
                        d[kk] = d.get(kk, 0) + vv
    return into


def campaign(ctx, res, binp, corpus, runs, max_len, tag, dictp=None, extra_inputs=(), nontrivial_key="past_header"):
    """Regression+seed replay, extra generated inputs, 16-process libFuzzer campaign; fills res. Returns campaign counters."""
    work = os.path.join(common.ROOT, "work", "%s-%d" % (ctx.pid.lower(), os.getpid()))
    shutil.rmtree(work, ignore_errors=True)
    os.makedirs(work)
    seeds = sorted(glob.glob(os.path.join(corpus, "*")))
    reg = sorted(glob.glob(os.path.join(common.ROOT, "regress", ctx.pid, "*")))
    dst = os.path.join(common.REPLAYS, ctx.pid)
    try:
        for f in reg + seeds:
            rc, err = run_files(binp, [f])
            if rc != 0:
                res.violation("saved input fails: %s: %s" % (os.path.basename(f), classify(err, tag)), None, f)
        if extra_inputs:
            mdir = os.path.join(work, "extra")
            os.makedirs(mdir)
            for i, b in enumerate(extra_inputs):
                open(os.path.join(mdir, "x%06d" % i), "wb").write(b)
            files = sorted(glob.glob(os.path.join(mdir, "*")))
            chunks = [files[i::common.NCPU] for i in range(common.NCPU)]
            xstats = os.path.join(work, "extra.stats")
            with ThreadPoolExecutor(common.NCPU) as ex:
                outs = list(ex.map(lambda ch: run_files(binp, ch, xstats) if ch else (0, ""), chunks))
            for (rc, err), ch in zip(outs, chunks):
                if rc != 0:
                    for f in ch:
                        rc1, err1 = run_files(binp, [f])
                        if rc1 != 0:
                            os.makedirs(dst, exist_ok=True)
                            path = os.path.join(dst, "generated-" + common.h(open(f, "rb").read()))
                            shutil.copy(f, path)
                            res.violation("generated input: %s" % classify(err1, tag), None, path)
                            break

        def fuzz(i):
            cdir = os.path.join(work, "corpus%d" % i)
            os.makedirs(cdir)
            adir = os.path.join(work, "art%d" % i) + "/"
            os.makedirs(adir)
            cmd = ["setarch", "-R", binp, "-max_len=%d" % max_len, "-runs=%d" % runs, "-seed=%d" % (ctx.seed * 1000 + i + 1), "-entropic=0",
                   "-rss_limit_mb=6000", "-malloc_limit_mb=100000", "-timeout=60", "-print_final_stats=1", "-artifact_prefix=" + adir, cdir, corpus]
            if dictp:
                cmd.insert(3, "-dict=" + dictp)
            p = subprocess.run(cmd, env=env(os.path.join(work, "stats%d" % i)), stdout=subprocess.PIPE, stderr=subprocess.PIPE)
            return i, p.returncode, p.stderr.decode("latin-1")
        with ThreadPoolExecutor(common.NCPU) as ex:
            fz = list(ex.map(fuzz, range(common.NCPU)))
        execs = 0
        for i, rc, err in fz:
            for l in err.splitlines():
                if l.startswith("stat::number_of_executed_units:"):
                    execs += int(l.split(":")[-1])
            for art in glob.glob(os.path.join(work, "art%d" % i, "*")):
                base = os.path.basename(art)
                if base.startswith(("crash-", "leak-")):
                    msgs = []
                    for _ in range(3):
                        rc1, err1 = run_files(binp, [art])
                        msgs.append((rc1, err1))
                    if not all(r != 0 for r, _ in msgs):
                        res.notes.append("artifact %s did not reproduce in 3 replays" % base)
                        continue
                    os.makedirs(dst, exist_ok=True)
                    path = os.path.join(dst, base)
                    shutil.copy(art, path)
                    res.violation("libFuzzer artifact: %s" % classify(msgs[0][1], tag), None, path)
                else:
                    res.inconclusive += 1
                    res.notes.append("load-noise artifact %s (oom/timeout/slow-unit): not judged" % base)
        units = {}
        for i in range(common.NCPU):
            for f in glob.glob(os.path.join(work, "corpus%d" % i, "*")):
                units[os.path.basename(f)] = f
        ulist = sorted(units.values())
        cstats = os.path.join(work, "corpus.stats")
        for k in range(0, len(ulist), 2000):
            run_files(binp, ulist[k:k + 2000], cstats)
        tot = sum_stats(cstats, {})
        camp = {}
        for i in range(common.NCPU):
            sum_stats(os.path.join(work, "stats%d" % i), camp)
        res.evaluations = execs + len(extra_inputs) + len(seeds) + len(reg)
        res.nontrivial = int(tot.get(nontrivial_key, 0))
        res.extra["campaign_counters"] = camp
        res.extra["distinct_corpus_units"] = len(ulist)
        res.extra["distinct_units_breakdown"] = tot
        res.extra["generated_inputs"] = len(extra_inputs)
        for f in ulist[:3]:
            d = open(f, "rb").read()
            res.samples.append({"bytes_prefix": d[:100].decode("latin-1")})
        return camp
    finally:
        shutil.rmtree(work, ignore_errors=True)
