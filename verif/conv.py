"""One conversion run of a generated model under an acceptance configuration, plus grid helpers."""
import itertools
from fractions import Fraction as F

from . import nl, vd, flat


def cfg_lines(acc):
    return vd.acc_cfg(acc["levels"], acc["default"], acc["quadobj"], acc["nonconvexqc"])


def convert(n, acc, opts=(), extra_cfg=(), fmt="text", **kw):
    """n: model in NL order. Returns vd.Run."""
    return vd.run(nl.emit(n, fmt=fmt), cfg_lines(acc) + ["status 0 scripted-ok"] + list(extra_cfg), options=list(opts), **kw)


def var_grid(v, step):
    lb, ub = v["lb"], v["ub"]
    if v["int"]:
        return [F(k) for k in range(int(lb), int(ub) + 1)]
    pts = []
    x = lb
    while x <= ub:
        pts.append(x)
        x += step
    if pts[-1] != ub:
        pts.append(ub)
    return pts


def grid(n, step=F(1, 2), cap=400, salt=0):
    """Cartesian grid over the original variables; if larger than cap, a deterministic subsample that keeps corners."""
    axes = [var_grid(v, step) for v in n.vars]
    total = 1
    for a in axes:
        total *= len(a)
    if total <= cap:
        return [list(p) for p in itertools.product(*axes)], total
    pts = []
    stride = total / float(cap)
    seen = set()
    k = 0
    while len(pts) < cap:
        idx = int(k * stride + salt) % total
        k += 1
        if idx in seen:
            if k > 4 * cap:
                break
            continue
        seen.add(idx)
        p, r = [], idx
        for a in reversed(axes):
            p.append(a[r % len(a)])
            r //= len(a)
        pts.append(list(reversed(p)))
    return pts, total


def diagnostic_of(run):
    """(code or None, message text) of a run that refused / failed."""
    msg = ""
    code = None
    if run.sol is not None:
        msg = "\n".join(run.sol.message)
        code = run.sol.code
    return code, (msg + "\n" + run.err + "\n" + run.out).strip()
