SHIMS_ub += safeint_check
VDRIVER := build/vd/vdriver
