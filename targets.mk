SHIMS_ub += safeint_check
