SHIMS_ub += safeint_check
VDRIVER := build/vd/vdriver
FUZZERS += fuzz_nlread
FUZZERS += fuzz_solread
SHIMS_prod += sol_rt
LIBS_sol_rt := -lrapidcheck
SHIMS_prod += expr_shim
LIBS_expr_shim := -lrapidcheck
