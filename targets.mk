SHIMS_ub += safeint_check
VDRIVER := build/vd/vdriver
FUZZERS += fuzz_nlread
FUZZERS += fuzz_solread
