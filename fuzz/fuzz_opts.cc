// C11: option parsing is total and memory-safe on arbitrary bytes. libFuzzer target, oracle inside.
//   byte 0: bit0 = recording error handler (else the default, throwing one), bit1 = FROM_COMMAND_LINE source (argv) else env string,
//           bit2 = split the input at 0x01 bytes into several argv elements
//   rest:   the options text (NUL-terminated copy in an exactly sized heap buffer, so reads past the NUL are seen by ASan)
// Oracle: only mp::Error-family exceptions escape; without an exception ParseOptions returns !errors (recording handler); parsing the same
// text twice leaves the same option values as parsing it once (assignments are idempotent).
#include <cstdint>
#include <cstdio>
#include <cstdlib>
#include <cstring>
#include <string>
#include <vector>

#define main opt_shim_main
#include "../shims/opt_shim.cc"
#undef main

namespace {
struct Stats { unsigned long total = 0, threw = 0, with_errors = 0, clean = 0, set_any = 0; } g_stats;
void dump_stats() {
  const char* p = getenv("FUZZ_STATS"); if (!p) return;
  FILE* f = fopen(p, "a"); if (!f) return;
  fprintf(f, "{\"total\":%lu,\"threw\":%lu,\"with_errors\":%lu,\"clean\":%lu,\"set_any\":%lu}\n", g_stats.total, g_stats.threw, g_stats.with_errors, g_stats.clean, g_stats.set_any);
  fclose(f);
}
[[noreturn]] void fail(const char* what, const std::string& detail = "") {
  fprintf(stderr, "C11-ORACLE-VIOLATION: %s %s\n", what, detail.c_str());
  dump_stats();
  abort();
}
std::string snapshot(OptSolver& s) {
  char b[400];
  snprintf(b, sizeof b, "%d|%d|%a|%a|%d|%a|%d|", s.iterlim, s.method, s.timelim, s.mipgap, s.acc_int, s.acc_dbl, s.flag_debug);
  std::string r = b; r += s.logfile + "|" + s.param + "|" + s.acc_str + "|";
  for (auto& kv : s.wc_int) r += kv.first + "=" + std::to_string(kv.second) + ",";
  for (auto& kv : s.wc_dbl) { snprintf(b, sizeof b, "%a", kv.second); r += kv.first + "=" + b + ","; }
  return r;
}
struct Parsed { bool ret = false, threw = false; size_t nerr = 0; std::string snap; };
Parsed parse(const std::vector<std::string>& parts, bool record, bool argv_mode, int times) {
  Parsed r; OptSolver s; Recorder rec;
  s.set_output_handler(&rec);
  if (record) s.set_error_handler(&rec);
  for (int t = 0; t < times; ++t) {
    std::vector<char*> args;
    if (argv_mode) for (auto& p : parts) { char* c = new char[p.size() + 1]; std::memcpy(c, p.c_str(), p.size() + 1); args.push_back(c); }
    else setenv("optsolver_options", parts[0].c_str(), 1);
    args.push_back(nullptr);
    try { r.ret = s.ParseOptions(args.data(), mp::BasicSolver::NO_OPTION_ECHO); }
    catch (const mp::Error&) { r.threw = true; }
    catch (const std::exception& e) { fail("exception outside the mp::Error family escaped from ParseOptions:", e.what()); }
    catch (...) { fail("unknown exception escaped from ParseOptions"); }
    for (char* c : args) delete[] c;
    if (r.threw) break;
  }
  unsetenv("optsolver_options");
  r.nerr = rec.errors.size(); r.snap = snapshot(s);
  return r;
}
}  // namespace

extern "C" int LLVMFuzzerInitialize(int*, char***) { atexit(dump_stats); unsetenv("mp_options"); unsetenv("optsolver_options"); return 0; }

extern "C" int LLVMFuzzerTestOneInput(const uint8_t* data, size_t size) {
  if (size < 2) return 0;
  bool record = data[0] & 1, argv_mode = data[0] & 2, split = data[0] & 4;
  std::string text((const char*)data + 1, size - 1);
  text = text.substr(0, text.find('\0'));
  if (text.find("optionfile") != std::string::npos || text.find("option:file") != std::string::npos) return 0;   // would read files named by the fuzzer
  { std::string low; for (char c : text) low += (char)tolower((unsigned char)c); if (low.find("optionfile") != std::string::npos || low.find("option:file") != std::string::npos) return 0; }
  std::vector<std::string> parts;
  if (argv_mode && split) { size_t b = 0; for (size_t i = 0; i <= text.size(); ++i) if (i == text.size() || text[i] == 1) { parts.push_back(text.substr(b, i - b)); b = i + 1; } }
  else parts.push_back(text);
  ++g_stats.total;
  Parsed once = parse(parts, record, argv_mode, 1);
  if (once.threw) { ++g_stats.threw; return 0; }      // mp::Error family (e.g. InvalidOptionValue is thrown past any handler, as documented)
  if (record && once.ret != (once.nerr == 0)) fail("ParseOptions return value disagrees with the reported errors");
  if (!record && !once.ret) fail("ParseOptions returned false without throwing under the default handler");
  if (once.nerr) ++g_stats.with_errors; else ++g_stats.clean;
  { OptSolver fresh; if (snapshot(fresh) != once.snap) ++g_stats.set_any; }
  Parsed twice = parse(parts, record, argv_mode, 2);
  if (!twice.threw && twice.snap != once.snap) fail("parsing the same text twice gives other values than parsing it once:", once.snap + "  vs  " + twice.snap);
  return 0;
}
