// C14: SOL reader totality / memory safety / no partial vector reported as complete. libFuzzer target, oracle inside.
//   byte 0: declared num_vars selector, byte 1: declared num_alg_cons selector,
//   byte 2: handler behaviour (bits 0-1 primal: all/half/none/one, bits 2-3 dual, bits 4-5 suffix values)
//   rest:   the .sol file (text or binary, decided by the content as the reader does)
#include <cstdint>
#include <cstdio>
#include <cstdlib>
#include <cstring>
#include <string>
#include <vector>
#include <unistd.h>
#include <sys/mman.h>

#include "mp/sol-reader2.h"
#include "mp/sol-reader2.hpp"
#include "new_throws.h"

namespace {

struct Stats {
  unsigned long total = 0, ok = 0, err = 0, past_options = 0, vec_offered = 0, suf_offered = 0, binary = 0, suf_len_checked = 0, by_code[16] = {0};
} g_stats;

void dump_stats() {
  const char* p = getenv("FUZZ_STATS");
  if (!p) return;
  FILE* f = fopen(p, "a");
  if (!f) return;
  fprintf(f, "{\"total\":%lu,\"ok\":%lu,\"err\":%lu,\"past_options\":%lu,\"vec_offered\":%lu,\"suf_offered\":%lu,\"binary\":%lu,\"suf_len_checked\":%lu,\"codes\":[",
          g_stats.total, g_stats.ok, g_stats.err, g_stats.past_options, g_stats.vec_offered, g_stats.suf_offered, g_stats.binary, g_stats.suf_len_checked);
  for (int i = 0; i < 10; ++i) fprintf(f, "%s%lu", i ? "," : "", g_stats.by_code[i]);
  fprintf(f, "]}\n");
  fclose(f);
}

[[noreturn]] void fail(const char* what, long a = 0, long b = 0) {
  fprintf(stderr, "C14-ORACLE-VIOLATION: %s (%ld, %ld)\n", what, a, b);
  dump_stats();
  abort();
}

struct H {
  int nv, nc, mode;
  bool got_past_options = false;
  int partial_failures = 0;     // vectors whose reading failed midway
  int unfinished_by_choice = 0; // vectors the handler left unread although no error occurred
  int offered = 0, suf = 0;
  std::vector<std::pair<size_t, size_t>> suf_lens;       // delivered (name length, table length), in order
  mp::NLHeader Header() const { mp::NLHeader h = mp::NLHeader(); h.num_vars = nv; h.num_algebraic_cons = nc; return h; }
  void OnSolveMessage(const char* s, int nbs) { if (!s) fail("null solve message"); if (nbs < 0) fail("negative backspace count"); (void)strlen(s); }
  struct AMPLOptions { std::vector<long> options_; bool has_vbtol_; double vbtol_; };
  int OnAMPLOptions(const AMPLOptions& ao) { got_past_options = true; if (ao.options_.size() > 64) fail("absurd number of options"); return 0; }
  template <class R> void consume(R& rd, int m, int limit, const char* what) {
    ++offered;
    int n = rd.Size();
    if (n < 0) fail("negative vector size offered", n);
    if (limit >= 0 && n > limit) fail(what, n, limit);
    int want = m == 0 ? n : m == 1 ? n / 2 : m == 2 ? 0 : (n > 0 ? 1 : 0);
    int k = 0;
    while (k < want && rd.Size() > 0) { rd.ReadNext(); ++k; }
    if (rd.ReadResult() != NLW2_SOLRead_OK) { ++partial_failures; if (rd.Size() != 0) fail("reader in error state still offers values"); }
    else if (rd.Size() > 0) ++unfinished_by_choice;
  }
  template <class R> void OnDualSolution(R& rd) { consume(rd, (mode >> 2) & 3, nc, "more dual values offered than the problem has constraints"); }
  template <class R> void OnPrimalSolution(R& rd) { consume(rd, mode & 3, nv, "more primal values offered than the problem has variables"); }
  void OnObjno(int) {}
  void OnSolveCode(int) {}
  template <class R> void suffix(R& sr) {
    ++suf;
    const auto& si = sr.SufInfo();
    if (si.Kind() < 0 || si.Kind() > 15) fail("suffix kind outside 0..15", si.Kind());
    suf_lens.push_back({si.Name().size(), si.Table().size()});
    consume(sr, (mode >> 4) & 3, -1, "");
  }
  template <class R> void OnIntSuffix(R& sr) { suffix(sr); }
  template <class R> void OnDblSuffix(R& sr) { suffix(sr); }
};

// Independent scan of a *text* .sol file for the suffix headers after the objno line: "suffix <kind> <n> <namelen> <tablen> <tablines>".
// Returns false if the text does not have the plain shape (then nothing is compared).
bool scan_text_suffix_headers(const std::string& t, std::vector<std::pair<long, long>>& out) {
  // plain shape only: the reader and this scan must agree on what a line is and on where the suffixes start -
  //   exactly one line starts with "objno " (the message text may contain anything, also such lines), no NUL, and no line is
  //   long enough to be split by the reader's 512-byte line buffer
  if (t.find('\0') != std::string::npos) return false;
  { size_t cnt = 0, p = 0; while (p < t.size()) { size_t e = t.find('\n', p); if (e == std::string::npos) e = t.size(); if (e - p > 500) return false; if (t.compare(p, 6, "objno ") == 0) ++cnt; p = e + 1; } if (cnt != 1) return false; }
  size_t pos = 0; bool after_objno = false;
  while (pos < t.size()) {
    size_t e = t.find('\n', pos); if (e == std::string::npos) e = t.size();
    std::string line = t.substr(pos, e - pos); pos = e + 1;
    if (!after_objno) { if (line.compare(0, 6, "objno ") == 0) after_objno = true; continue; }
    if (line.compare(0, 7, "suffix ") != 0) return false;
    long kind, n, namelen, tablen, tablines; int used = 0;
    if (sscanf(line.c_str() + 7, "%ld %ld %ld %ld %ld%n", &kind, &n, &namelen, &tablen, &tablines, &used) != 5) return false;
    for (const char* c = line.c_str() + 7 + used; *c; ++c) if (*c != ' ' && *c != '\r') return false;
    if (n < 0 || namelen < 2 || tablen < 0 || tablines < 0 || n > 100000 || tablines > 100000) return false;
    out.push_back({namelen, tablen});
    long skip = 1 + (tablen ? tablines : 0) + n;          // name line, table lines, value lines
    long table_bytes = 0;
    for (long k = 0; k < skip; ++k) {
      if (pos > t.size()) return false;
      size_t e2 = t.find('\n', pos); if (e2 == std::string::npos) { if (k + 1 < skip) return false; e2 = t.size(); }
      if (tablen && k >= 1 && k <= tablines) table_bytes += (long)(e2 - pos) + 1;
      pos = e2 + 1;
    }
    // a table line that does not fit into what is left of the stated length is read piecewise by the reader: lines no longer correspond
    if (tablen && table_bytes > tablen) return false;
  }
  return after_objno;
}

int pick(uint8_t b, int file_guess) {
  switch (b % 6) { case 0: return 0; case 1: return 1; case 2: return 3; case 3: return 7; case 4: return 100000; default: return file_guess; }
}

}  // namespace

extern "C" int LLVMFuzzerInitialize(int*, char***) { atexit(dump_stats); return 0; }

extern "C" int LLVMFuzzerTestOneInput(const uint8_t* data, size_t size) {
  if (size < 4) return 0;
  H h;
  h.nv = pick(data[0], 2); h.nc = pick(data[1], 1); h.mode = data[2];
  int fd = memfd_create("sol", 0);
  if (fd < 0) return 0;
  if (write(fd, data + 3, size - 3) != (ssize_t)(size - 3)) { close(fd); return 0; }
  char path[64]; snprintf(path, sizeof path, "/proc/self/fd/%d", fd);
  ++g_stats.total;
  if (size > 13 && !memcmp(data + 7, "binary", 6)) ++g_stats.binary;
  mp::NLUtils utils;
  NLW2_SOLReadResultCode rc;
  std::string msg;
  try {
    mp::SOLReader2<H> rd(h, utils);
    rc = rd.ReadSOLFile(path);
    msg = rd.ErrorMessage(rc);
  } catch (const std::bad_alloc&) {       // hostile length: allowed (counts as a refusal)
    close(fd); ++g_stats.err; return 0;
  } catch (...) {
    fail("exception escaped from ReadSOLFile");
  }
  close(fd);
  if ((int)rc < 0 || (int)rc > (int)NLW2_SOLRead_Bad_Suffix) fail("undocumented result code", rc);
  ++g_stats.by_code[(int)rc];
  if (h.got_past_options) ++g_stats.past_options;
  g_stats.vec_offered += h.offered; g_stats.suf_offered += h.suf;
  if (rc == NLW2_SOLRead_OK) {
    ++g_stats.ok;
    if (h.partial_failures) fail("a vector read failed midway but the overall result is OK", h.partial_failures);
    if (h.unfinished_by_choice) fail("a vector was left unread but the overall result is OK", h.unfinished_by_choice);
    // suffix names and tables are delivered with the lengths stated in the file (text files of the plain shape)
    bool is_binary = size > 13 && !memcmp(data + 7, "binary", 6);
    std::vector<std::pair<long, long>> stated;
    if (!is_binary && !h.suf_lens.empty() && scan_text_suffix_headers(std::string((const char*)data + 3, size - 3), stated) && stated.size() == h.suf_lens.size()) {
      ++g_stats.suf_len_checked;
      for (size_t i = 0; i < stated.size(); ++i) {
        if ((long)h.suf_lens[i].first > stated[i].first - 1) fail("suffix name delivered longer than the length stated in the file", (long)h.suf_lens[i].first, stated[i].first);
        if ((long)h.suf_lens[i].second > (stated[i].second > 0 ? stated[i].second - 1 : 0)) fail("suffix table delivered longer than the length stated in the file", (long)h.suf_lens[i].second, stated[i].second);
      }
    }
  } else {
    ++g_stats.err;
    if (msg.empty()) fail("error code without a message", rc);
  }
  return 0;
}
