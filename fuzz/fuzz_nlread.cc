// C02: NL reader totality / memory safety / consistency, libFuzzer target with in-target oracle.
//   byte 0: bit0 READ_BOUNDS_FIRST, bits1-2 handler (0 validating recorder, 1 mp::Problem, 2 NullNLHandler, 3 recorder),
//           bit3 differential string-vs-file, bits4-5 padding mode (file size below / at / above a page multiple)
//   rest:   NL content (text or binary as its own header says)
// Oracle (abort() = violation): every callback consistent with the header announced first; exactly as many
// AddArg/AddTerm/SetValue as announced; EndInput last, once, only on success; ReadNLString and ReadNLFile produce the
// identical event stream or the identical error (modulo the file name); only std::exception may escape.
#include <cstdint>
#include <cstdio>
#include <cstdlib>
#include <cstring>
#include <string>
#include <vector>
#include <unistd.h>
#include <sys/mman.h>

#include "mp/nl-reader.h"
#include "mp/problem.h"
#include "new_throws.h"

namespace {

struct Stats {
  unsigned long total = 0, past_header = 0, accepted = 0, rej_header = 0, rej_body = 0, other_exc = 0, diff_runs = 0, skipped_huge = 0, page_multiple = 0, diff_page_multiple_accepted = 0;
  unsigned long by_handler[4] = {0, 0, 0, 0}, segs[128] = {0};
} g_stats;

void dump_stats() {
  const char* p = getenv("FUZZ_STATS");
  if (!p) return;
  FILE* f = fopen(p, "a");
  if (!f) return;
  fprintf(f, "{\"total\":%lu,\"past_header\":%lu,\"accepted\":%lu,\"rej_header\":%lu,\"rej_body\":%lu,\"other_exc\":%lu,\"diff_runs\":%lu,"
             "\"page_multiple\":%lu,\"diff_page_multiple_accepted\":%lu,\"skipped_huge_header_for_problem_builder\":%lu,\"recorder\":%lu,\"problem\":%lu,\"null\":%lu,\"segs\":{", g_stats.total, g_stats.past_header, g_stats.accepted,
          g_stats.rej_header, g_stats.rej_body, g_stats.other_exc, g_stats.diff_runs, g_stats.page_multiple, g_stats.diff_page_multiple_accepted, g_stats.skipped_huge, g_stats.by_handler[0] + g_stats.by_handler[3],
          g_stats.by_handler[1], g_stats.by_handler[2]);
  bool first = true;
  for (int c = 33; c < 127; ++c) if (g_stats.segs[c]) { fprintf(f, "%s\"%c\":%lu", first ? "" : ",", c == '"' || c == '\\' ? '?' : c, g_stats.segs[c]); first = false; }
  fprintf(f, "}}\n");
  fclose(f);
}

[[noreturn]] void fail(const char* what, long a = 0, long b = 0) {
  fprintf(stderr, "C02-ORACLE-VIOLATION: %s (%ld, %ld)\n", what, a, b);
  dump_stats();
  abort();
}

struct Rec;
struct Slot { long expected, got; };

struct Args {           // counts AddArg / AddTerm / SetValue / Add
  Rec* r; int id;
  void AddArg(int);
  void AddTerm(int var, double c);
  void SetValue(int index, int v);
  void SetValue(int index, double v);
  void Add(int size);
  void AddSlope(double);
  void AddBreakpoint(double);
};

struct Rec : mp::NLHandler<Rec, int> {
  mp::NLHeader h;
  bool have_header = false, ended = false;
  uint64_t hash = 1469598103934665603ULL;
  std::vector<Slot> slots;
  int open = 0;            // open Begin* handlers
  int pending = -1;        // slot of the last flat (no End callback) handler: linear part, suffix, column sizes
  int pending_kind = 0, pending_items = 0;
  long nvars_and_exprs = 0, ncommon = 0;
  int common_slot = -1;

  void mix(uint64_t v) { hash = (hash ^ v) * 1099511628211ULL; }
  void mixd(double d) { uint64_t u; memcpy(&u, &d, 8); if (d != d) u = 0x7ff8000000000000ULL; mix(u); }
  void ev(int tag) {
    if (!have_header && tag != 1) fail("callback before OnHeader", tag);
    if (ended) fail("callback after EndInput", tag);
    mix((uint64_t)tag);
  }
  void top(int tag) {      // a top-level (segment) notification
    ev(tag);
    if (open != 0) fail("segment notification inside an unfinished Begin/End", tag, open);
    close_pending();
  }
  void close_pending() {
    if (pending >= 0) {
      if (slots[pending].got != slots[pending].expected)
        fail("announced number of terms/values not delivered", slots[pending].expected, slots[pending].got);
      pending = -1;
    }
  }
  int new_slot(long expected) { slots.push_back({expected, 0}); return (int)slots.size() - 1; }
  Args begin(long n) { if (n < 0) fail("negative announced count", n); ++open; return Args{this, new_slot(n)}; }
  void end(Args a) {
    if (a.r != this || a.id < 0 || a.id >= (int)slots.size()) fail("End* with a foreign handler");
    if (slots[a.id].got != slots[a.id].expected) fail("End* after a wrong number of AddArg", slots[a.id].expected, slots[a.id].got);
    if (--open < 0) fail("End* without Begin*");
  }
  Args flat(long n, int kind, int items) {
    if (n < 0) fail("negative announced count", n);
    pending = new_slot(n); pending_kind = kind; pending_items = items;
    return Args{this, pending};
  }
  void idx(long i, long n, const char* what) { if (i < 0 || i >= n) fail(what, i, n); }

  // ---- NLHandler concept
  void OnHeader(const mp::NLHeader& hd) {
    if (have_header) fail("OnHeader twice");
    h = hd; have_header = true; mix(1);
    ncommon = (long)h.num_common_exprs_in_both + h.num_common_exprs_in_cons + h.num_common_exprs_in_objs +
              h.num_common_exprs_in_single_cons + h.num_common_exprs_in_single_objs;
    mix(h.num_vars); mix(h.num_algebraic_cons); mix(h.num_objs); mix(h.num_logical_cons); mix(h.num_funcs); mix((uint64_t)ncommon);
  }
  bool NeedObj(int i) const { return i >= 0; }
  int resulting_obj_index(int i) const { return i; }
  void OnObj(int i, mp::obj::Type t, int) { top(2); idx(i, h.num_objs, "objective index out of range"); mix(i); mix((int)t); }
  void OnAlgebraicCon(int i, int) { top(3); idx(i, h.num_algebraic_cons, "algebraic constraint index out of range"); mix(i); }
  void OnLogicalCon(int i, int) { top(4); idx(i, h.num_logical_cons, "logical constraint index out of range"); mix(i); }
  typedef Args LinearExprHandler;
  typedef Args LinearObjHandler;
  typedef Args LinearConHandler;
  Args BeginCommonExpr(int i, int n) {
    ev(5); if (open != 0) fail("BeginCommonExpr inside Begin/End"); close_pending();
    idx(i, ncommon, "common expression index out of range"); mix(i); mix(n);
    Args a = begin(n); common_slot = a.id; return a;
  }
  void EndCommonExpr(int i, int, int pos) { ev(6); idx(i, ncommon, "common expression index out of range"); mix(i); mix(pos);
    if (open != 1) fail("EndCommonExpr with unfinished nested handlers", open);
    if (common_slot < 0 || slots[common_slot].got != slots[common_slot].expected)
      fail("common expression: announced number of linear terms not delivered");
    common_slot = -1; --open;
  }
  void OnComplementarity(int ci, int vi, mp::ComplInfo info) { ev(7); idx(ci, h.num_algebraic_cons, "complementarity constraint index");
    idx(vi, h.num_vars, "complementarity variable index out of range"); mix(ci); mix(vi); mixd(info.con_lb()); mixd(info.con_ub()); }
  Args OnLinearObjExpr(int i, int n) { top(8); idx(i, h.num_objs, "linear objective index out of range"); lin(n); mix(i); mix(n); return flat(n, 8, h.num_vars); }
  Args OnLinearConExpr(int i, int n) { top(9); idx(i, h.num_algebraic_cons, "linear constraint index out of range"); lin(n); mix(i); mix(n); return flat(n, 9, h.num_vars); }
  void lin(int n) { if (n < 1 || n > h.num_vars) fail("number of linear terms outside 1..num_vars", n, h.num_vars); }
  void OnVarBounds(int i, double lb, double ub) { ev(10); idx(i, h.num_vars, "variable bound index out of range"); mix(i); mixd(lb); mixd(ub); }
  void OnConBounds(int i, double lb, double ub) { ev(11); idx(i, h.num_algebraic_cons, "constraint bound index out of range"); mix(i); mixd(lb); mixd(ub); }
  void OnInitialValue(int i, double v) { ev(12); idx(i, h.num_vars, "initial value index out of range"); mix(i); mixd(v); }
  void OnInitialDualValue(int i, double v) { ev(13); idx(i, h.num_algebraic_cons, "initial dual index out of range"); mix(i); mixd(v); }
  typedef Args ColumnSizeHandler;
  Args OnColumnSizes() { top(14); return flat(h.num_vars > 0 ? h.num_vars - 1 : 0, 14, 0); }
  void OnFunction(int i, fmt::StringRef name, int nargs, mp::func::Type t) { top(15); idx(i, h.num_funcs, "function index out of range");
    mix(i); mix(nargs); mix((int)t); for (size_t k = 0; k < name.size(); ++k) mix((unsigned char)name.data()[k]); }
  typedef Args IntSuffixHandler;
  typedef Args DblSuffixHandler;
  int suf_items(mp::suf::Kind k) {
    switch (k & mp::internal::SUFFIX_KIND_MASK) { case mp::suf::VAR: return h.num_vars; case mp::suf::CON: return h.num_algebraic_cons + h.num_logical_cons;
      case mp::suf::OBJ: return h.num_objs; default: return 1; }
  }
  Args OnIntSuffix(fmt::StringRef name, mp::suf::Kind k, int n) { top(16); return suffix(name, k, n, 16); }
  Args OnDblSuffix(fmt::StringRef name, mp::suf::Kind k, int n) { top(17); return suffix(name, k, n, 17); }
  Args suffix(fmt::StringRef name, mp::suf::Kind k, int n, int tag) {
    int items = suf_items(k);
    if (n < 1 || n > items) fail("number of suffix values outside 1..num_items", n, items);
    mix((int)k); mix(n); for (size_t i = 0; i < name.size(); ++i) mix((unsigned char)name.data()[i]);
    return flat(n, tag, items);
  }
  typedef Args ArgHandler;
  typedef Args NumericArgHandler; typedef Args VarArgHandler; typedef Args CallArgHandler; typedef Args NumberOfArgHandler;
  typedef Args CountArgHandler; typedef Args LogicalArgHandler; typedef Args PairwiseArgHandler; typedef Args SymbolicArgHandler;
  typedef Args PLTermHandler;
  int OnNumber(double v) { ev(20); mixd(v); return 0; }
  int OnVariableRef(int i) { ev(21); idx(i, h.num_vars, "variable reference out of range"); mix(i); return 0; }
  int OnCommonExprRef(int i) { ev(22); idx(i, ncommon, "common expression reference out of range"); mix(i); return 0; }
  int OnUnary(mp::expr::Kind k, int) { ev(23); mix((int)k); return 0; }
  int OnBinary(mp::expr::Kind k, int, int) { ev(24); mix((int)k); return 0; }
  int OnIf(int, int, int) { ev(25); return 0; }
  Args BeginPLTerm(int nb) { ev(26); mix(nb); if (nb < 1) fail("PL term with < 1 breakpoint", nb); return begin(2L * nb + 1); }
  int EndPLTerm(Args a, int) { ev(27); end(a); return 0; }
  Args BeginCall(int f, int n) { ev(28); idx(f, h.num_funcs, "called function index out of range"); mix(f); mix(n); return begin(n); }
  int EndCall(Args a) { ev(29); end(a); return 0; }
  Args BeginVarArg(mp::expr::Kind k, int n) { ev(30); mix((int)k); mix(n); if (n < 1) fail("vararg with no arguments"); return begin(n); }
  int EndVarArg(Args a) { ev(31); end(a); return 0; }
  Args BeginSum(int n) { ev(32); mix(n); return begin(n); }
  int EndSum(Args a) { ev(33); end(a); return 0; }
  Args BeginCount(int n) { ev(34); mix(n); return begin(n); }
  int EndCount(Args a) { ev(35); end(a); return 0; }
  Args BeginNumberOf(int n, int) { ev(36); mix(n); if (n < 1) fail("numberof without value"); return begin(n - 1); }
  int EndNumberOf(Args a) { ev(37); end(a); return 0; }
  Args BeginSymbolicNumberOf(int n, int) { ev(38); mix(n); if (n < 1) fail("symbolic numberof without value"); return begin(n - 1); }
  int EndSymbolicNumberOf(Args a) { ev(39); end(a); return 0; }
  int OnBool(bool v) { ev(40); mix(v); return 0; }
  int OnNot(int) { ev(41); return 0; }
  int OnBinaryLogical(mp::expr::Kind k, int, int) { ev(42); mix((int)k); return 0; }
  int OnRelational(mp::expr::Kind k, int, int) { ev(43); mix((int)k); return 0; }
  int OnLogicalCount(mp::expr::Kind k, int, int) { ev(44); mix((int)k); return 0; }
  int OnImplication(int, int, int) { ev(45); return 0; }
  Args BeginIteratedLogical(mp::expr::Kind k, int n) { ev(46); mix((int)k); mix(n); return begin(n); }
  int EndIteratedLogical(Args a) { ev(47); end(a); return 0; }
  Args BeginPairwise(mp::expr::Kind k, int n) { ev(48); mix((int)k); mix(n); return begin(n); }
  int EndPairwise(Args a) { ev(49); end(a); return 0; }
  int OnString(fmt::StringRef s) { ev(50); mix(s.size()); for (size_t i = 0; i < s.size(); ++i) mix((unsigned char)s.data()[i]); return 0; }
  int OnSymbolicIf(int, int, int) { ev(51); return 0; }
  void EndInput() { ev(60); if (open != 0) fail("EndInput inside Begin/End", open); close_pending(); ended = true; }
};

void Args::AddArg(int) { r->ev(70); r->slots[id].got++; if (r->slots[id].got > r->slots[id].expected) fail("more AddArg than announced"); }
void Args::AddTerm(int var, double c) { r->ev(71); r->idx(var, r->h.num_vars, "linear term variable index out of range"); r->mix(var); r->mixd(c);
  r->slots[id].got++; if (r->slots[id].got > r->slots[id].expected) fail("more AddTerm than announced"); }
void Args::SetValue(int i, int v) { r->ev(72); r->idx(i, r->pending_items, "suffix value index out of range"); r->mix(i); r->mix(v);
  r->slots[id].got++; if (r->slots[id].got > r->slots[id].expected) fail("more suffix values than announced"); }
void Args::SetValue(int i, double v) { r->ev(73); r->idx(i, r->pending_items, "suffix value index out of range"); r->mix(i); r->mixd(v);
  r->slots[id].got++; if (r->slots[id].got > r->slots[id].expected) fail("more suffix values than announced"); }
void Args::Add(int size) { r->ev(74); if (size < 0) fail("negative column size"); r->mix(size);
  r->slots[id].got++; if (r->slots[id].got > r->slots[id].expected) fail("more column sizes than announced"); }
void Args::AddSlope(double v) { r->ev(75); r->mixd(v); r->slots[id].got++; }
void Args::AddBreakpoint(double v) { r->ev(76); r->mixd(v); r->slots[id].got++; }

struct Outcome { int kind = 0; std::string err; uint64_t hash = 0; bool header = false, ended = false; };   // 0 ok, 1 ReadError, 2 other mp/std exception

std::string strip_name(std::string s, const std::string& name) {
  size_t p;
  while ((p = s.find(name)) != std::string::npos) s.replace(p, name.size(), "<input>");
  return s;
}

template <class H> Outcome run_string(const std::string& text, int flags, H& h, const char* name) {
  Outcome o;
  try { mp::ReadNLString(mp::NLStringRef(text.c_str(), text.size()), h, name, flags); }
  catch (const mp::ReadError& e) { o.kind = 1; o.err = strip_name(e.what(), name); }
  catch (const mp::BinaryReadError& e) { o.kind = 1; o.err = strip_name(e.what(), name); }
  catch (const std::exception& e) { o.kind = 2; o.err = strip_name(e.what(), name); }
  return o;
}

}  // namespace

extern "C" int LLVMFuzzerInitialize(int*, char***) { atexit(dump_stats); return 0; }

extern "C" int LLVMFuzzerTestOneInput(const uint8_t* data, size_t size) {
  if (size < 2) return 0;
  unsigned ctl = data[0];
  int flags = (ctl & 1) ? mp::READ_BOUNDS_FIRST : 0;
  int handler = (ctl >> 1) & 3;
  bool diff = (ctl >> 3) & 1;
  int pad = (ctl >> 4) & 3;
  std::string text((const char*)data + 1, size - 1);
  // NUL inside the text would end the string path but not the file path; the reader's contract is a NUL-terminated
  // string, so cut there for both
  size_t z = text.find('\0');
  bool binary = !text.empty() && text[0] == 'b';
  if (!binary && z != std::string::npos) text.resize(z);
  if (pad && !binary) {
    // bring the text to a multiple of the page size (the file path copies instead of mapping there), one less, or one more.
    // The filler goes before the last newline, where a text reader skips to the end of the line, so a valid file stays valid.
    size_t page = 4096, want = pad == 1 ? 0 : pad == 2 ? page - 1 : 1;
    size_t fill = (want + page - text.size() % page) % page;
    size_t nl = text.rfind('\n');
    if (nl == std::string::npos) text.append(fill, ' '); else text.insert(nl, fill, ' ');
    if (pad == 1) ++g_stats.page_multiple;
  }
  ++g_stats.total; ++g_stats.by_handler[handler];
  Outcome o;
  const char* name = "(input)";
  if (handler == 1) {
    // mp::Problem reserves storage from the header counts before anything is read: a header announcing 2^31 items is an
    // allocation-size test of the sanitizer allocator, not of the reader. Such headers go to the recording handler only.
    mp::NLHeader hh = mp::NLHeader();
    bool huge = false;
    try {
      mp::internal::TextReader<> tr(mp::NLStringRef(text.c_str(), text.size()), name);
      tr.ReadHeader(hh);
      const long LIM = 200000;
      huge = hh.num_vars > LIM || hh.num_algebraic_cons > LIM || hh.num_objs > LIM || hh.num_logical_cons > LIM || hh.num_funcs > LIM ||
             (long)hh.num_common_exprs_in_both + hh.num_common_exprs_in_cons + hh.num_common_exprs_in_objs +
             hh.num_common_exprs_in_single_cons + hh.num_common_exprs_in_single_objs > LIM;
    } catch (const std::exception&) {}
    if (huge) { ++g_stats.skipped_huge; return 0; }
    mp::Problem p;
    o = run_string(text, flags, p, name);
  } else if (handler == 2) {
    mp::NullNLHandler<int> nh;
    o = run_string(text, flags, nh, name);
  } else {
    Rec r;
    o = run_string(text, flags, r, name);
    o.hash = r.hash; o.header = r.have_header; o.ended = r.ended;
    if (o.kind == 0 && !r.ended) fail("reader returned without EndInput");
    if (o.kind != 0 && r.ended) fail("EndInput delivered although the read failed");
    if (r.have_header) { ++g_stats.past_header; }
    if (o.kind == 0) ++g_stats.accepted; else if (!r.have_header) ++g_stats.rej_header; else ++g_stats.rej_body;
    if (o.kind == 2) ++g_stats.other_exc;
    if (diff && !(binary && z != std::string::npos)) {
      // same bytes through the file path
      ++g_stats.diff_runs;
      if (o.kind == 0 && !text.empty() && text.size() % 4096 == 0) ++g_stats.diff_page_multiple_accepted;
      int fd = memfd_create("nl", 0);
      if (fd >= 0) {
        if (write(fd, text.data(), text.size()) == (ssize_t)text.size()) {
          char path[64]; snprintf(path, sizeof path, "/proc/self/fd/%d", fd);
          Rec r2; Outcome o2;
          try { mp::ReadNLFile(path, r2, flags); }
          catch (const mp::ReadError& e) { o2.kind = 1; o2.err = strip_name(e.what(), path); }
          catch (const mp::BinaryReadError& e) { o2.kind = 1; o2.err = strip_name(e.what(), path); }
          catch (const std::exception& e) { o2.kind = 2; o2.err = strip_name(e.what(), path); }
          if (text.empty()) { /* empty file: mmap of size 0 is a system error on the file path only */ }
          else if (o2.kind != o.kind || r2.hash != r.hash || (o.kind == 1 && o2.err != o.err)) {
            fprintf(stderr, "string: kind %d '%s' hash %llx\nfile:   kind %d '%s' hash %llx\n", o.kind, o.err.c_str(),
                    (unsigned long long)r.hash, o2.kind, o2.err.c_str(), (unsigned long long)r2.hash);
            fail("ReadNLString and ReadNLFile disagree on the same bytes");
          }
        }
        close(fd);
      }
    }
  }
  return 0;
}
